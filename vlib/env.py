"""Process isolation for the checks (DESIGN.md section 2.2 and 2.3)."""

import logging
import os
import shutil
import sys
import tempfile

REPO = os.environ.get("VERIF_REPO", "/repo")
SCRATCH_ROOT = "/var/tmp"


def isolate():
    """Give this process a private HOME/cwd and make sure the code under test
    is imported from the working tree of the repository."""
    scratch = tempfile.mkdtemp(prefix="verif-", dir=SCRATCH_ROOT)
    home = os.path.join(scratch, "home")
    work = os.path.join(scratch, "cwd")
    os.makedirs(home)
    os.makedirs(work)
    os.environ["HOME"] = home
    os.environ["INTRA2NET_AVOCADO_I2N_VERIF"] = "1"
    os.chdir(work)
    if sys.path[0] != REPO:
        sys.path.insert(0, REPO)
    verif = os.path.dirname(os.path.dirname(os.path.abspath(__file__)))
    if verif not in sys.path:
        sys.path.insert(1, verif)
    return scratch


def cleanup(scratch):
    try:
        os.chdir("/")
    except OSError:
        pass
    shutil.rmtree(scratch, ignore_errors=True)


def check_origin():
    """Abort (harness error) unless avocado_i2n comes from the tree under test."""
    import avocado_i2n

    origin = os.path.realpath(avocado_i2n.__file__)
    if not origin.startswith(os.path.realpath(REPO) + os.sep):
        from .core import HarnessError

        raise HarnessError(f"avocado_i2n imported from {origin}, expected below {REPO}")
    return origin


def quiet_logging():
    """avocado.job.* logging dominates traversal time; switch it off."""
    logging.disable(logging.CRITICAL)
