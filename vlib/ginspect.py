"""E2 - graph inspector: neutral export of a parsed graph, structural invariants (C06),
an independent dependency resolver (C07) and worker/lazy equivalence (C09)."""

from __future__ import annotations

import re

from . import sim as simmod
from .core import Violation, HarnessError, canon

ROOT_STATES = ("root", "0root", "boot", "0boot")


# ---------------------------------------------------------------------------
# own restriction matcher over dotted variant names (documented Cartesian semantics)


def matches(name, restriction):
    """`,` = OR of alternatives, `..` = AND of groups in any order, `.` = immediately followed by."""
    variants = name.split(".")
    for alternative in restriction.replace(" ", "").split(","):
        if not alternative:
            continue
        ok = True
        for group in alternative.split(".."):
            seq = group.split(".")
            if not any(variants[i:i + len(seq)] == seq for i in range(len(variants) - len(seq) + 1)):
                ok = False
                break
        if ok:
            return True
    return False


def own_setless(name, main_restrictions):
    """Name without its leading test set (longest matching set prefix)."""
    best = ""
    for restr in main_restrictions:
        if (name == restr or name.startswith(restr + ".")) and len(restr) > len(best):
            best = restr
    return name[len(best) + 1:] if best else name


# ---------------------------------------------------------------------------
# export


def object_states(node, test_object):
    params = test_object.object_typed_params(node.params)
    return {"get": params.get("get") or "", "get_state": params.get("get_state") or "",
            "set_state": params.get("set_state") or ""}


def export(graph):
    """Neutral description of a parsed graph; edges are read from BOTH ends."""
    nodes = {}
    main_restrictions = None
    for node in graph.nodes:
        params = node.params
        if main_restrictions is None:
            main_restrictions = params.objects("main_restrictions")
        name = params["name"]
        entry = {
            "name": name,
            "id": node.id,
            "prefix": node.prefix,
            "flat": node.is_flat(),
            "shared_root": node.is_shared_root(),
            "object_root": params.get("object_root"),
            "nets": params.get("nets"),
            "vms": params.objects("vms"),
            "setless": own_setless(name, main_restrictions or []),
            "objects": [],
            "clones": sorted(c.params["name"] for c in node.cloned_nodes),
            "bridged": sorted(b.params["name"] for b in node.bridged_nodes),
            "parents": {},
            "children": {},
            "object_id": {k: v for k, v in params.items() if k.startswith("object_id")},
        }
        for test_object in node.objects:
            info = {"key": test_object.key, "suffix": test_object.suffix, "long_suffix": test_object.long_suffix,
                    "id": test_object.id, "variant": test_object.component_form,
                    "permanent": test_object.is_permanent() if test_object.key == "vms" else False}
            info.update(object_states(node, test_object))
            entry["objects"].append(info)
        for parent, objects in node.setup_nodes.items():
            entry["parents"][parent.params["name"]] = sorted(o.long_suffix for o in objects)
        for child, objects in node.cleanup_nodes.items():
            entry["children"][child.params["name"]] = sorted(o.long_suffix for o in objects)
        if name in nodes:
            nodes.setdefault("__duplicates__", []).append(name)
        nodes[name] = entry
    return {"nodes": nodes, "main_restrictions": main_restrictions or [],
            "workers": {w.id: {"restrs": dict(w.restrs), "swarm": w.swarm_id} for w in graph.workers.values()}}


def identity(entry, workers):
    """Worker-invariant identity of a node: set-less name with the worker's net variant replaced."""
    name = entry["setless"]
    if entry["flat"] or not entry["nets"]:
        return name
    # the net variant appears as nets.<swarm>.<net> after every vm variant
    net = entry["nets"]
    swarm = workers.get(net, {}).get("swarm", "localhost")
    short = net.split(".")[-1]
    return name.replace(f"nets.{swarm}.{short}", "<net>")


# ---------------------------------------------------------------------------
# C06: structural invariants


def check_structure(graph, ex, case, lazy_incomplete=False):
    nodes = {k: v for k, v in ex["nodes"].items() if k != "__duplicates__"}
    for name in ex["nodes"].get("__duplicates__", []):
        yield Violation({"oracle": "duplicate-node-name"}, f"two nodes are named {name}", case)
    ids = {}
    for entry in nodes.values():
        if entry["id"] in ids:
            yield Violation({"oracle": "duplicate-node-id"}, f"{entry['name']} and {ids[entry['id']]} share the id {entry['id']}", case)
        ids[entry["id"]] = entry["name"]
    # one representation per test and worker (identity = set-less name)
    seen = {}
    for entry in nodes.values():
        key = (entry["setless"], entry["flat"])
        if key in seen and not entry["flat"]:
            yield Violation({"oracle": "test-represented-twice"},
                            f"{entry['name']} and {seen[key]} are the same test for the same worker and objects", case)
        seen[key] = entry["name"]
    # exactly one shared root
    roots = [e for e in nodes.values() if e["shared_root"]]
    if len(roots) != 1:
        yield Violation({"oracle": "shared-root-count", "count": min(len(roots), 2)}, f"{len(roots)} shared roots: {[r['name'] for r in roots]}", case)
        return
    # edges recorded on both ends with equal object sets
    for entry in nodes.values():
        for parent, objects in entry["parents"].items():
            other = nodes.get(parent)
            if other is None:
                yield Violation({"oracle": "edge-to-unknown-node"}, f"{entry['name']} descends from {parent} which is not in the graph", case)
                continue
            back = other["children"].get(entry["name"])
            if back is None:
                yield Violation({"oracle": "edge-one-sided", "missing": "cleanup"},
                                f"{entry['name']} lists parent {parent} but the parent does not list it as a child", case)
            elif back != objects:
                yield Violation({"oracle": "edge-objects-differ"},
                                f"{entry['name']} -> {parent}: child records {objects}, parent records {back}", case)
        for child, objects in entry["children"].items():
            other = nodes.get(child)
            if other is None:
                yield Violation({"oracle": "edge-to-unknown-node"}, f"{entry['name']} lists child {child} which is not in the graph", case)
            elif entry["name"] not in other["parents"]:
                yield Violation({"oracle": "edge-one-sided", "missing": "setup"},
                                f"{entry['name']} lists child {child} but the child does not list it as a parent", case)
    # acyclic (Kahn over setup edges)
    indegree = {name: len([p for p in e["parents"] if p in nodes]) for name, e in nodes.items()}
    queue = [n for n, d in indegree.items() if d == 0]
    visited = 0
    while queue:
        current = queue.pop()
        visited += 1
        for child in nodes[current]["children"]:
            if child in indegree:
                indegree[child] -= 1
                if indegree[child] == 0:
                    queue.append(child)
    if visited != len(nodes):
        yield Violation({"oracle": "cycle"}, f"{len(nodes) - visited} nodes are on or behind a dependency cycle", case)
    # reachability from the shared root along cleanup edges
    root = roots[0]["name"]
    reach, stack = {root}, [root]
    while stack:
        current = stack.pop()
        for child in nodes[current]["children"]:
            if child in nodes and child not in reach:
                reach.add(child)
                stack.append(child)
    unreachable = sorted(set(nodes) - reach)
    if unreachable:
        yield Violation({"oracle": "unreachable-from-root", "flat": nodes[unreachable[0]]["flat"]},
                        f"{len(unreachable)} nodes are not reachable from the shared root, e.g. {unreachable[:3]}", case)
    # per node: objects and parents
    for entry in nodes.values():
        if entry["flat"]:
            continue
        nets = [o for o in entry["objects"] if o["key"] == "nets"]
        if len(nets) != 1 or entry["objects"][0]["key"] != "nets" or nets[0]["suffix"] != (entry["nets"] or "").split(".")[-1] \
                and nets[0]["long_suffix"] != entry["nets"]:
            yield Violation({"oracle": "net-object"},
                            f"{entry['name']}: net objects {[o['long_suffix'] for o in nets]}, params nets={entry['nets']}", case)
        vm_objects = sorted(o["suffix"] for o in entry["objects"] if o["key"] == "vms")
        if vm_objects != sorted(entry["vms"]):
            yield Violation({"oracle": "vm-objects"},
                            f"{entry['name']}: vm objects {vm_objects}, params vms={entry['vms']}", case)
        if entry["clones"]:
            if not entry["prefix"].startswith("0"):
                yield Violation({"oracle": "clone-source-prefix"}, f"clone source {entry['name']} has prefix {entry['prefix']}", case)
            continue
        for obj in entry["objects"]:
            if obj["key"] == "nets" or not obj["get_state"] or obj["get_state"] in ROOT_STATES:
                continue
            if obj["permanent"] and not obj["get"]:
                continue
            attached = [p for p, objs in entry["parents"].items() if obj["long_suffix"] in objs]
            if not attached:
                if lazy_incomplete:
                    continue
                yield Violation({"oracle": "required-state-without-parent", "type": obj["key"]},
                                f"{entry['name']} needs {obj['get_state']} of {obj['long_suffix']} but no parent is attached through it", case)
                continue
            if len(attached) > 1:
                yield Violation({"oracle": "several-parents-for-one-state"},
                                f"{entry['name']} has {len(attached)} parents through {obj['long_suffix']}: {attached}", case)
            for parent_name in attached:
                parent = nodes.get(parent_name)
                if parent is None or parent["flat"]:
                    continue
                if parent["nets"] != entry["nets"]:
                    yield Violation({"oracle": "parent-of-other-worker"},
                                    f"{entry['name']} ({entry['nets']}) depends on {parent_name} ({parent['nets']})", case)
                twin = [o for o in parent["objects"] if o["long_suffix"] == obj["long_suffix"]]
                if not twin:
                    yield Violation({"oracle": "parent-lacks-object"},
                                    f"{entry['name']} depends through {obj['long_suffix']} on {parent_name} which does not use that object "
                                    f"(it uses {[o['long_suffix'] for o in parent['objects']]})", case)
                    continue
                if twin[0]["id"] != obj["id"]:
                    yield Violation({"oracle": "parent-object-variant-differs"},
                                    f"{entry['name']} uses {obj['id']} but its parent {parent_name} uses {twin[0]['id']}", case)
                if parent["object_root"]:
                    continue
                if twin[0]["set_state"] != obj["get_state"]:
                    yield Violation({"oracle": "parent-sets-other-state"},
                                    f"{entry['name']} needs {obj['get_state']} of {obj['long_suffix']} but its parent {parent_name} sets "
                                    f"{twin[0]['set_state']!r}", case)
    # the code's own validation and run decisions for clone sources
    for node in graph.nodes:
        try:
            node.validate()
        except Exception as error:
            yield Violation({"oracle": "validate-raises", "error": type(error).__name__},
                            f"validate() of {node.params['name']}: {error!r}", case)
        if len(node.cloned_nodes) > 0:
            worker = next((w for w in graph.workers.values() if w.id in node.params["name"]), None)
            if worker is not None and node.should_run(worker):
                yield Violation({"oracle": "clone-source-runnable"}, f"clone source {node.params['name']} should_run is true", case)


# ---------------------------------------------------------------------------
# C07: independent resolver over the universe of test names


_UNIVERSE = {}


def universe(suite_key=None):
    """Names of all tests of the suite (set-less), parsed once from sets.cfg with the third-party parser only."""
    if suite_key in _UNIVERSE:
        return _UNIVERSE[suite_key]
    mods = simmod.setup()
    from avocado_i2n import params_parser as param

    config = param.Reparsable()
    config.parse_next_batch(base_file="sets.cfg", base_str="only all\n")
    names = [d["name"] for d in config.get_parser().get_dicts()]
    names = [n[4:] if n.startswith("all.") else n for n in names]
    _UNIVERSE[suite_key] = names
    return names


def check_dependencies(graph, ex, case, suite_key=None):
    """Every attached parent is a declared producer and the declared producers are all represented."""
    nodes = {k: v for k, v in ex["nodes"].items() if k != "__duplicates__"}
    names = universe(suite_key)
    workers = ex["workers"]
    by_identity = {}
    for entry in nodes.values():
        by_identity.setdefault((identity(entry, workers), entry["nets"]), []).append(entry)
    for entry in nodes.values():
        if entry["flat"]:
            continue
        test_part = entry["setless"].split(".vms.")[0]
        for obj in entry["objects"]:
            declared = obj["get"]
            if obj["key"] == "nets" or not declared:
                if obj["key"] != "nets" and not declared:
                    attached = [p for p, objs in entry["parents"].items() if obj["long_suffix"] in objs
                                and not nodes.get(p, {}).get("shared_root")]
                    if attached and not entry["object_root"]:
                        yield Violation({"oracle": "undeclared-dependency"},
                                        f"{entry['name']} declares no dependency for {obj['long_suffix']} but has parents {attached}", case)
                continue
            producers = [n for n in names if matches(n, declared)]
            attached = [p for p, objs in entry["parents"].items() if obj["long_suffix"] in objs]
            for parent_name in attached:
                parent = nodes.get(parent_name)
                if parent is None or parent["flat"] or parent["shared_root"]:
                    continue
                parent_test = parent["setless"].split(".vms.")[0]
                # clones carry the branch state inside the test part; compare on the declared restriction only
                if not matches(parent_test, declared) and not any(matches(parent_test, declared + ".." + s) for s in [""]):
                    base_ok = any(parent_test.startswith(p) or matches(parent_test, p) for p in producers)
                    if not base_ok:
                        yield Violation({"oracle": "spurious-parent"},
                                        f"{entry['name']} declares get={declared!r} for {obj['long_suffix']} but is attached to {parent_name}", case)
            if entry["clones"]:
                # branch-specific state names: the clones of one source must not produce the same state
                produced = {}
                for clone_name in entry["clones"]:
                    clone = nodes.get(clone_name)
                    if clone is None:
                        continue
                    for cobj in clone["objects"]:
                        if cobj["long_suffix"] == obj["long_suffix"] and cobj["set_state"]:
                            produced.setdefault(cobj["set_state"], []).append(clone_name)
                for state, owners in produced.items():
                    if len(owners) > 1:
                        yield Violation({"oracle": "clones-produce-same-state"},
                                        f"clones {[o[:60] for o in owners]} of {entry['name'][:80]} all set {state!r} of {obj['long_suffix']}", case)
                expected_clones = len(producers)
                if len(entry["clones"]) != expected_clones and expected_clones > 1:
                    yield Violation({"oracle": "clone-count"},
                                    f"{entry['name']}: get={declared!r} resolves to {expected_clones} producers {producers}, "
                                    f"but it has {len(entry['clones'])} clones", case)
                continue
            if len(producers) > 1 and not entry["clones"]:
                # a node that is not a clone source must itself be a clone: exactly one parent, and all producers
                # must be represented among the clones of its source (same worker)
                siblings = [e for e in nodes.values() if e["nets"] == entry["nets"] and e is not entry
                            and not e["flat"] and e["clones"] and entry["name"] in e["clones"]]
                if not siblings:
                    yield Violation({"oracle": "multi-producer-not-cloned"},
                                    f"{entry['name']}: get={declared!r} for {obj['long_suffix']} resolves to {len(producers)} producers "
                                    f"{producers} but the test is neither cloned nor a clone", case)
            if not attached and obj["get_state"] not in ROOT_STATES and not (obj["permanent"]):
                yield Violation({"oracle": "missing-parent"},
                                f"{entry['name']} declares get={declared!r} for {obj['long_suffix']} but no parent is attached", case)


# ---------------------------------------------------------------------------
# C09: equivalence of worker copies, lazy vs eager


def edge_view(ex):
    """{(worker, identity): {(parent identity, objects with the worker part removed)}}"""
    nodes = {k: v for k, v in ex["nodes"].items() if k != "__duplicates__"}
    workers = ex["workers"]
    view = {}
    for entry in nodes.values():
        if entry["flat"] or entry["shared_root"] or entry["clones"]:
            continue
        ident = identity(entry, workers)
        edges = set()
        for parent, objects in entry["parents"].items():
            other = nodes.get(parent)
            if other is None:
                continue
            pident = "<root>" if other["shared_root"] else ("<flat>" + other["setless"] if other["flat"] else identity(other, workers))
            edges.add((pident, tuple(o.replace("_" + (entry["nets"] or ""), "_<net>") for o in objects)))
        view[(entry["nets"], ident)] = edges
    return view


def check_worker_copies(ex, case, excluded_ok):
    """Every worker has the same nodes and edges up to naming; a node may only be missing for a worker whose
    restrictions exclude it, or when it is setup needed only by tests that are themselves missing there."""
    view = edge_view(ex)
    per_worker = {}
    for (worker, ident), edges in view.items():
        per_worker.setdefault(worker, {})[ident] = edges
    children = {}
    for (worker, ident), edges in view.items():
        for parent, _ in edges:
            children.setdefault((worker, parent), set()).add(ident)

    def missing_ok(has_worker, lacks_worker, ident, depth=0):
        if excluded_ok(lacks_worker, ident):
            return True
        dependants = children.get((has_worker, ident), set())
        if not dependants or depth > 20:
            return False
        return all(d not in per_worker.get(lacks_worker, {}) and missing_ok(has_worker, lacks_worker, d, depth + 1)
                   for d in dependants)

    workers = sorted(per_worker)
    for i, first in enumerate(workers):
        for second in workers[i + 1:]:
            a, b = per_worker[first], per_worker[second]
            for ident in sorted(set(a) | set(b)):
                if ident in a and ident in b:
                    if a[ident] != b[ident]:
                        yield Violation({"oracle": "worker-copies-differ-in-edges"},
                                        f"{ident}: {first} has parents {sorted(a[ident])}, {second} has {sorted(b[ident])}", case)
                else:
                    has, lacks = (first, second) if ident in a else (second, first)
                    if not missing_ok(has, lacks, ident):
                        yield Violation({"oracle": "worker-copy-lacks-node"},
                                        f"{ident} exists for {has} but not for {lacks}, whose restrictions exclude neither it nor "
                                        f"all the tests that need it", case)


def check_bridging(graph, case):
    groups = {}
    helper_workers = {w.id: {"swarm": w.swarm_id} for w in graph.workers.values()}
    ex = export(graph)
    nodes = {k: v for k, v in ex["nodes"].items() if k != "__duplicates__"}
    by_name = {n.params["name"]: n for n in graph.nodes}
    for entry in nodes.values():
        if entry["flat"] or entry["shared_root"]:
            continue
        groups.setdefault(identity(entry, ex["workers"]), []).append(entry)
    kinds = ("_picked_by_setup_nodes", "_picked_by_cleanup_nodes", "_dropped_setup_nodes", "_dropped_cleanup_nodes")
    for ident, entries in groups.items():
        names = sorted(e["name"] for e in entries)
        for entry in entries:
            expected = [n for n in names if n != entry["name"]]
            if entry["bridged"] != expected:
                yield Violation({"oracle": "bridging-incomplete-or-asymmetric"},
                                f"{entry['name']} is bridged with {entry['bridged']}, equivalent nodes are {expected}", case)
        if len(entries) > 1:
            for kind in kinds:
                if len({id(getattr(by_name[e["name"]], kind)) for e in entries}) != 1:
                    yield Violation({"oracle": "equivalent-nodes-do-not-share-register", "kind": kind.strip("_")},
                                    f"{names} hold different {kind} registers", case)


def check_lazy_against_eager(lazy_ex, eager_ex, case):
    lazy_view, eager_view = edge_view(lazy_ex), edge_view(eager_ex)
    for key, edges in sorted(lazy_view.items()):
        worker, ident = key
        if key not in eager_view:
            yield Violation({"oracle": "lazy-node-not-in-eager-graph"},
                            f"lazy parsing produced {ident} for {worker}, which the complete graph does not contain", case)
            continue
        reference = {e for e in eager_view[key] if not e[0].startswith("<flat>")}
        got = {e for e in edges if not e[0].startswith("<flat>")}
        if got != reference:
            yield Violation({"oracle": "lazy-dependencies-differ"},
                            f"{ident} for {worker}: lazily parsed parents {sorted(got)}, complete graph {sorted(reference)}", case)


# ---------------------------------------------------------------------------
# generated graph inputs (G1) and the shared driver of C06 / C07 / C09

from hypothesis import strategies as st  # noqa: E402

SETS = ["normal", "leaves", "all", "nonleaves", "minimal"]
LEAF_TESTS = ["tutorial1", "tutorial2", "tutorial2.files", "tutorial2.names", "tutorial3", "tutorial3.no_remote",
              "tutorial_gui", "tutorial_gui.client_noop", "tutorial_gui.client_clicked", "tutorial_get",
              "tutorial_get.explicit_noop", "tutorial_get.explicit_clicked", "tutorial_get.implicit_both",
              "tutorial_finale", "quicktest", "tutorial_get", "tutorial_get.implicit_both", "tutorial_finale", "tutorial3"]
INNER_TESTS = ["customize", "on_customize", "connect", "linux_virtuser", "windows_virtuser", "automated"]
VM_CHOICES = {
    "vm1": ["only CentOS\n", "only CentOS\n", "only Fedora\n", "", "only qemu_kvm_centos\n", "no Fedora\n"],
    "vm2": ["only Win10\n", "only Win10\n", "only Win7\n", "", "only qemu_kvm_windows_10\n"],
    "vm3": ["only Ubuntu\n", "only Ubuntu\n", "only Kali\n", ""],
}
NETS = ["net1", "net1 net2", "net1 net2 net3", "net0", "net3 net4", "net3 net4 net5", "cluster1.net6 cluster1.net7",
        "cluster1.net6 cluster2.net6", "net1 cluster1.net6", "cluster1.net7 cluster2.net9", "net2 net5",
        "net5 net1", "net5 net4 net3", "cluster2.net9 cluster1.net6"]


@st.composite
def graph_inputs(draw, lazy_share=0.4):
    def one():
        test_set = draw(st.sampled_from(SETS))
        if test_set == "nonleaves":
            test = draw(st.sampled_from(INNER_TESTS))
        elif test_set == "minimal":
            test = draw(st.sampled_from(["tutorial1", "tutorial2", "tutorial2.files", "quicktest"]))
        elif test_set == "all":
            test = draw(st.sampled_from(LEAF_TESTS + INNER_TESTS))
        else:
            test = draw(st.sampled_from(LEAF_TESTS))
        return test_set, test

    form = draw(st.sampled_from(["single", "single", "pair", "lines"]))
    first = one()
    if form == "single":
        tests = f"{first[0]}..{first[1]}"
    elif form == "lines":
        tests = f"{first[0]}&{first[1]}"
    else:
        second = one()
        # the same test selected through two different sets is two requests for one test: not generated
        names = universe()
        overlap = {n for n in names if matches(n, first[1])} & {n for n in names if matches(n, second[1])}
        if first[0] != second[0] and overlap:
            second = (first[0], second[1])
        tests = f"{first[0]}..{first[1]},{second[0]}..{second[1]}"
    vm_strs = {vm: draw(st.sampled_from(choices)) for vm, choices in VM_CHOICES.items()}
    nets = draw(st.sampled_from(NETS))
    lazy = draw(st.sampled_from([False, False, False, True, True]))
    case = {"tests": tests, "vm_strs": vm_strs, "nets": nets, "lazy": lazy}
    # a vm with a second image: tests then reach one parent through two objects
    extra = draw(st.sampled_from([None, None, None, None, {"images_vm1": "image1 image2"}, {"images_vm2": "image1 image2"}]))
    # (not combined with multi-producer dependencies: cloning once per image of one vm is not a configuration the
    # suite or the documentation knows, the second image exists only to create multi-object edges)
    if extra and "tutorial_get" not in tests and "tutorial_finale" not in tests:
        case["extra"] = extra
    return case


def size_estimate(case):
    """Cheap upper estimate of the graph size (flat tests x workers x variant products) to keep parses affordable."""
    mods = simmod.setup()
    scenario = simmod.Scenario(case["tests"], case["vm_strs"], case["nets"], case["lazy"], extra=case.get("extra"))
    try:
        flat = mods["TestGraph"].parse_flat_nodes(simmod.tests_str(case["tests"]), scenario.param_dict())
    except mods["param"].EmptyCartesianProduct:
        return 0
    multiplicity = 1
    for vm, restr in case["vm_strs"].items():
        if restr == "" or restr.startswith("no "):
            multiplicity *= 2 if restr == "" else 1
    return len(flat) * len(case["nets"].split()) * multiplicity


def obtain_graph(case, scratch):
    """Parse the input the way the plugin does; returns (graph, error).  Lazy inputs are expanded by a traversal."""
    mods = simmod.setup()
    scenario = simmod.Scenario(case["tests"], case["vm_strs"], case["nets"], case["lazy"], extra=case.get("extra"))
    if not case["lazy"]:
        graph, swarms = simmod.build_graph(scenario)
        mods["TestSwarm"].run_swarms = swarms
        return graph, None
    run = simmod.Sim(scenario, run_params={"test_timeout": 10}, durations=case.get("durations") or ["0.01T"],
                     outcomes=["PASS"], scratch=scratch)
    run.run()
    global LAST_SIM
    LAST_SIM = run
    return run.graph, run.error


LAST_SIM = None


EXPECTED_PARSE_ERRORS = ("EmptyCartesianProduct",)


def run_graph_property(ctx, prop, judge, quick=480, thorough=9600, max_size=40):
    simmod.setup()

    def body(case):
        if size_estimate(case) > (max_size if ctx.tier == "quick" else 2 * max_size):
            ctx.label("skipped:too-large")
            return
        labels = ["lazy" if case["lazy"] else "eager", f"workers={len(case['nets'].split())}"]
        try:
            graph, error = obtain_graph(case, ctx.scratch)
        except Exception as parse_error:
            name = type(parse_error).__name__
            if name in EXPECTED_PARSE_ERRORS:
                ctx.case(case, False, labels + ["empty-product"])
                return
            raise Violation({"oracle": "parse-raises", "error": name, "where": _where(parse_error)},
                            f"parsing {case} raised {parse_error!r}"[:1500], case)
        if error is not None:
            name = type(error).__name__
            if name in EXPECTED_PARSE_ERRORS:
                ctx.case(case, False, labels + ["empty-product"])
                return
            raise Violation({"oracle": "lazy-expansion-raises", "error": name, "where": _where(error)},
                            f"lazy traversal of {case} raised {error!r}"[:1500], case)
        ex = export(graph)
        nodes = [e for k, e in ex["nodes"].items() if k != "__duplicates__"]
        multi = any(len(e["vms"]) > 1 for e in nodes)
        clones = any(e["clones"] for e in nodes)
        nontrivial = len(ex["workers"]) >= 2 or multi or clones
        labels += (["multi-object"] if multi else []) + (["clones"] if clones else []) + [f"nodes<={(len(nodes) // 10 + 1) * 10}"]
        ctx.case(case, nontrivial, labels, sample={"input": case, "nodes": len(nodes)})
        found = {}
        for violation in judge(graph, ex, case, ctx):
            found.setdefault(violation.key, violation)
        unknown = [v for k, v in found.items() if k not in ctx.known]
        if unknown:
            raise unknown[0]
        if found:
            raise next(iter(found.values()))

    for case in REGRESSION_INPUTS.get(prop, []) if ctx.shard == 0 else []:
        try:
            body(case)
        except Violation as violation:
            ctx.record_violation(violation, case)
    ctx.hyp(graph_inputs(), body, ctx.budget(quick, thorough), name="graphs", shrink=(ctx.tier == "thorough"))
    from . import memo

    memo.self_check()


def _where(error):
    import traceback

    for frame in reversed(traceback.extract_tb(error.__traceback__)):
        if "avocado_i2n" in frame.filename:
            return f"{frame.filename.split('avocado_i2n/')[-1]}:{frame.name}"
    return "?"


def excluded_by_restrictions(ex):
    """excluded_ok(worker, identity): do the worker's vm restrictions exclude the vm variants named in the identity?"""
    from .e1 import restriction_allows

    def excluded_ok(worker, ident):
        restrs = ex["workers"].get(worker, {}).get("restrs", {})
        tail = ident.split(".vms.", 1)[1] if ".vms." in ident else ""
        for vm, variant in re.findall(r"(vm\d+)\.(.*?)\.<net>", tail):
            restr = restrs.get(vm, "")
            if restr and not restriction_allows(restr, variant):
                return True
        return False

    return excluded_ok


REGRESSION_INPUTS = {
    "C06": [
        {"tests": "normal..tutorial1", "vm_strs": {"vm1": "", "vm2": "only Win10\n", "vm3": "only Ubuntu\n"}, "nets": "net5 net1", "lazy": False},
        {"tests": "normal..tutorial3", "vm_strs": {"vm1": "only Fedora\n", "vm2": "only Win10\n", "vm3": "only Ubuntu\n"}, "nets": "net1", "lazy": False},
        {"tests": "leaves..tutorial_get..explicit_noop,normal..tutorial_gui..client_noop", "vm_strs": {"vm1": "only CentOS\n", "vm2": "only Win10\n", "vm3": "only Ubuntu\n"}, "nets": "net1", "lazy": True},
        {"tests": "leaves..tutorial_finale", "vm_strs": {"vm1": "only CentOS\n", "vm2": "only Win10\n", "vm3": ""}, "nets": "net1 net2", "lazy": False},
        {"tests": "normal..tutorial1", "vm_strs": {"vm1": "only CentOS\n", "vm2": "only Win10\n", "vm3": "only Ubuntu\n"}, "nets": "net1", "lazy": False, "extra": {"images_vm1": "image1 image2"}},
    ],
    "C07": [
        {"tests": "leaves..tutorial_get.explicit_noop,leaves..tutorial_get.implicit_both", "vm_strs": {"vm1": "only CentOS\n", "vm2": "only Win10\n", "vm3": "only Ubuntu\n"}, "nets": "net1", "lazy": False},
        {"tests": "leaves..tutorial_get..explicit_noop,normal..tutorial_gui..client_noop", "vm_strs": {"vm1": "only CentOS\n", "vm2": "only Win10\n", "vm3": "only Ubuntu\n"}, "nets": "net1", "lazy": True},
        {"tests": "leaves..tutorial_finale", "vm_strs": {"vm1": "only CentOS\n", "vm2": "only Win10\n", "vm3": ""}, "nets": "net1", "lazy": False},
    ],
    "C09": [
        {"tests": "normal..tutorial1", "vm_strs": {"vm1": "", "vm2": "only Win10\n", "vm3": "only Ubuntu\n"}, "nets": "net5 net1", "lazy": False},
        {"tests": "leaves..tutorial_gui", "vm_strs": {"vm1": "only qemu_kvm_centos\n", "vm2": "only Win10\n", "vm3": "only Ubuntu\n"}, "nets": "net1 net2", "lazy": True},
        {"tests": "leaves..tutorial_get", "vm_strs": {"vm1": "only CentOS\n", "vm2": "only Win10\n", "vm3": "only Ubuntu\n"}, "nets": "net1 net2", "lazy": True},
    ],
}
