"""E1 - traversal simulator (DESIGN.md section 3.1).

Runs the real graph parsing and traversal coroutines of avocado-i2n on a
virtual-clock event loop.  Replaced seams (the ones the selftests replace):
``TestRunner.run_test_task`` (model executor), ``cartgraph.node.door`` (model
state control), remote login, spawner dispatcher and worker start.
Everything that happens is written to an event log that the oracles read.
"""

from __future__ import annotations

import asyncio
import copy
import hashlib
import os
import re
import types

from . import memo, vloop
from .core import HarnessError

STATUSES = ["PASS", "FAIL", "ERROR", "WARN", "SKIP", "CANCEL", "INTERRUPTED"]
SHARED_POOL = "/mnt/local/images/shared"

_mods = {}
CURRENT = None  # the Sim of the running case


def setup():
    """Import the code under test once per process and install the seams."""
    if _mods:
        return _mods
    from . import env

    env.check_origin()
    env.quiet_logging()
    from avocado_i2n import params_parser as param
    from avocado_i2n.cartgraph import TestGraph, TestNode, TestSwarm, TestWorker
    from avocado_i2n.cartgraph import node as node_module
    from avocado_i2n.cartgraph import worker as worker_module
    from avocado_i2n.cartgraph import graph as graph_module
    from avocado_i2n.plugins import runner as runner_module
    from aexpect.exceptions import ShellCmdError
    from virttest.utils_params import Params

    memo.install()
    memo.install_fast_params()
    _mods.update(
        param=param, TestGraph=TestGraph, TestNode=TestNode, TestSwarm=TestSwarm, TestWorker=TestWorker,
        node_module=node_module, worker_module=worker_module, graph_module=graph_module,
        runner_module=runner_module, ShellCmdError=ShellCmdError, Params=Params,
    )
    # seams
    runner_module.TestRunner.run_test_task = _run_test_task
    node_module.door = ModelDoor
    def wait_for_login(client, host, port, *args, **kwargs):
        # sessions are tagged with the end point they were opened to (C08: the right worker's environment)
        return types.SimpleNamespace(cmd_output=lambda *a, **k: "", close=lambda: None, endpoint=f"{host}:{port}")

    worker_module.remote.wait_for_login = wait_for_login
    runner_module.SpawnerDispatcher = lambda *a, **k: _AnySpawner()
    TestWorker.start = lambda self: True
    TestGraph.visualize = lambda self, *a, **k: None
    TestGraph.report_progress = lambda self: None
    # observe back-off sleeps and child picks (C04)
    graph_module.asyncio = _AsyncioProxy()
    original_pick_child = TestNode.pick_child

    def pick_child(self, worker):
        child = original_pick_child(self, worker)
        if CURRENT is not None:
            CURRENT.log("pick", worker=worker.id, from_root=self.is_shared_root(),
                        parent=self.params.get("shortname"), child=child.params.get("shortname"))
        return child

    TestNode.pick_child = pick_child
    original_cleanup_ready = TestNode.is_cleanup_ready

    def is_cleanup_ready(self, worker):
        sim = CURRENT
        if sim is not None:
            sim.steps += 1
            if sim.steps > sim.max_steps:
                raise vloop.StepBound(f"more than {sim.max_steps} traversal steps")
            gap = sim.steps - sim.progress_at
            if gap > sim.max_gap:
                sim.max_gap = gap
            if sim.steps % 64 == 0:
                sim.watchdog()
        return original_cleanup_ready(self, worker)

    TestNode.is_cleanup_ready = is_cleanup_ready
    # observe every registration of a visit (C09/C16: shared bookkeeping)
    original_register = node_module.EdgeRegister.register

    def register(self, node, worker):
        original_register(self, node, worker)
        if CURRENT is not None:
            CURRENT.registrations.append((self, node, worker.id))

    node_module.EdgeRegister.register = register
    return _mods


class _AnySpawner(dict):
    def __getitem__(self, key):
        return types.SimpleNamespace(obj=types.SimpleNamespace(kind=key))


class _AsyncioProxy:
    """asyncio as seen by cartgraph.graph: sleep() calls are logged as back-offs."""

    def __getattr__(self, name):
        return getattr(asyncio, name)

    @staticmethod
    async def sleep(delay, *args, **kwargs):
        sim = CURRENT
        if sim is not None:
            task = asyncio.current_task()
            sim.log("backoff", worker=getattr(task, "verif_worker", None), delay=delay)
        await asyncio.sleep(delay, *args, **kwargs)


# ---------------------------------------------------------------------------
# decoding of state requests from plain parameters


def state_requests(params, do, Params=None):
    """Decode what a parameter dict asks the state setup to <do> (get/set/unset/check).

    Returns a list of dicts(vm, image|None, type, state, locations, scope, mode, object_id).
    Follows the nets->vms->images iteration of states/setup.py on plain Params.
    """
    Params = Params or _mods["Params"]
    if not isinstance(params, Params):
        params = Params(params)
    loc_key = "show" if do == "check" else do
    requests = []
    for vm in params.objects("vms"):
        vm_params = params.object_params(vm)
        typed = vm_params.object_params("vms")
        state = typed.get(f"{do}_state")
        if state:
            requests.append(dict(
                vm=vm, image=None, type="vms", state=state,
                locations=(typed.get(f"{loc_key}_location") or "").split(),
                scope=typed.get("pool_scope", "").split(), mode=typed.get(f"{do}_mode", ""),
                object_id=vm_params.get("object_id", vm),
            ))
        for image in vm_params.objects("images"):
            image_params = vm_params.object_params(image)
            typed = image_params.object_params("images")
            state = typed.get(f"{do}_state")
            if state:
                requests.append(dict(
                    vm=vm, image=image, type="images", state=state,
                    locations=(typed.get(f"{loc_key}_location") or "").split(),
                    scope=typed.get("pool_scope", "").split(), mode=typed.get(f"{do}_mode", ""),
                    object_id=vm_params.get("object_id", vm),
                ))
    return requests


def state_key(request):
    return (request["object_id"], request["type"], request["state"])


# ---------------------------------------------------------------------------
# model state control (node.door)


class ModelDoor:
    DUMP_CONTROL_DIR = "/tmp"
    _action = "check"
    _params = None

    @staticmethod
    def set_subcontrol_parameter(path, key, value):
        ModelDoor._action = value
        return path

    @staticmethod
    def set_subcontrol_parameter_dict(path, key, params):
        ModelDoor._params = params
        return path

    @staticmethod
    def run_subcontrol(session, path):
        sim = CURRENT
        action, params = ModelDoor._action, ModelDoor._params
        worker = params.get("nets")
        requests = state_requests(params, action)
        sim.log("door", worker=worker, action=action, name=params.get("name"),
                endpoint=getattr(session, "endpoint", None),
                requests=[dict(r, key=list(state_key(r)), present=sim.pools.present_for_scan(worker, r))
                          for r in requests])
        if action == "check":
            for request in requests:
                if request["state"] in ("root", "0root", "boot", "0boot"):
                    continue
                if not sim.pools.present_for_scan(worker, request):
                    raise _mods["ShellCmdError"](1, "pre_state.control", "AssertionError")
        elif action == "unset":
            for request in requests:
                sim.pools.unset(worker, request)
        elif action == "get":
            for request in requests:
                sim.pools.fetch(worker, request)
        else:
            raise HarnessError(f"unexpected state control action {action}")


class Pools:
    """Model of where states exist: a shared pool and one own pool per worker."""

    def __init__(self, shared=(), own=None):
        self.shared = {tuple(k) for k in shared}
        self.own = {w: {tuple(k) for k in keys} for w, keys in (own or {}).items()}

    def own_of(self, worker):
        return self.own.setdefault(worker, set())

    def present_for_scan(self, worker, request):
        """What SourcedStateBackend.show answers for the scan: own cache if 'own' is in scope,
        the listed (shared) location if its scope is enabled."""
        key = state_key(request)
        scope = request["scope"] or ["own", "swarm", "cluster", "shared"]
        if "own" in scope and key in self.own_of(worker):
            return True
        for location in request["locations"]:
            wid, _, path = location.partition(":")
            if wid == "" and "shared" in scope and key in self.shared:
                return True
            if wid and wid != worker and key in self.own_of(wid) and ("swarm" in scope or "cluster" in scope):
                return True
        return False

    def available(self, worker, request, workers=None):
        """Availability of a required state at test start (C01): own pool, or a listed and permitted source."""
        key = state_key(request)
        scope = request["scope"] or ["own", "swarm", "cluster", "shared"]
        if "own" in scope and key in self.own_of(worker):
            return "own"
        for location in request["locations"]:
            wid, _, path = location.partition(":")
            if wid == "":
                if "shared" in scope and key in self.shared:
                    return "shared"
            elif wid == worker:
                continue
            elif key in self.own_of(wid):
                relation = source_relation(workers, worker, wid) if workers else "swarm"
                if relation in scope:
                    return "worker:" + wid
        return None

    def fetch(self, worker, request):
        if self.available(worker, request):
            self.own_of(worker).add(state_key(request))

    def unset(self, worker, request):
        self.own_of(worker).discard(state_key(request))

    def add(self, worker, request):
        self.own_of(worker).add(state_key(request))

    def snapshot(self):
        return {"shared": sorted(map(list, self.shared)),
                "own": {w: sorted(map(list, keys)) for w, keys in sorted(self.own.items())}}


def source_relation(workers, worker_id, source_id):
    """Scope label of another worker's pool relative to a worker: swarm (same swarm) or cluster."""
    me, other = workers.get(worker_id), workers.get(source_id)
    if me is None or other is None:
        return "cluster"
    return "swarm" if me["swarm"] == other["swarm"] else "cluster"


# ---------------------------------------------------------------------------
# model executor (TestRunner.run_test_task)


def stable_index(text, modulo):
    return int.from_bytes(hashlib.sha1(text.encode()).digest()[:4], "big") % modulo


async def _run_test_task(runner, node):
    sim = CURRENT
    worker = node.started_worker
    mods = _mods
    params = node.params
    name = params["name"]
    uid = node.id_test.uid
    wid = worker.id if worker is not None else None
    ident = sim.identity(node)
    attempt = sim.attempts.get(ident, 0)
    sim.attempts[ident] = attempt + 1
    snapshot = {k: v for k, v in params.items() if isinstance(v, str)}
    gets = state_requests(params, "get")
    sets = state_requests(params, "set")
    availability = []
    missing = False
    for request in gets:
        if request["state"] in ("root", "0root", "boot", "0boot"):
            source = "root"
        else:
            source = sim.pools.available(wid, request, sim.workers)
            if source is None and (request["mode"] or "ra")[1:2] != "i":
                missing = True
        availability.append(dict(request, key=list(state_key(request)), source=source))
    has_unknown = any(r.get("status") == "UNKNOWN" for r in node.results)
    endpoint = None
    if params.get("nets_spawner") == "remote" and worker is not None:
        # the real run_test_task hands the worker's session to the remote spawner
        endpoint = getattr(worker.get_session(), "endpoint", None)
    event = sim.log(
        "start", worker=wid, name=name, uid=uid, ident=ident, attempt=attempt, prefix=node.prefix,
        params=snapshot, gets=availability, sets=[dict(r, key=list(state_key(r))) for r in sets],
        flat=node.is_flat(), clones=len(node.cloned_nodes), has_unknown=has_unknown,
        object_root=params.get("object_root"), node_type=params.get("type"),
        node_worker_in_name=wid in name if wid else None, endpoint=endpoint,
    )
    duration = sim.duration_for(ident, attempt)
    task = asyncio.current_task()
    await asyncio.sleep(duration)
    status = sim.outcome_for(ident, attempt)
    override = getattr(sim, "status_override", None)
    if override is not None:
        status = override(uid, status)
    if missing and status in ("PASS", "WARN") and getattr(sim, "missing_state_aborts", True):
        # a test whose required state cannot be fetched aborts (get_mode ?a)
        status = "ERROR"
    late = False
    if status.startswith("LATE:"):
        # the result message arrives 45 virtual seconds after the test finished (only meaningful when the test
        # timeout is long enough for the result polling of the runner not to count as an overrun)
        status = status[5:]
        late = float(sim.run_params.get("test_timeout", 100)) >= 100
    reported = status != "NEVER"
    if status in ("PASS", "WARN"):
        for request in gets:
            if request["state"] not in ("root", "0root", "boot", "0boot"):
                sim.pools.fetch(wid, request)
        for request in sets:
            if request["state"] in ("root", "0root", "boot", "0boot"):
                continue
            sim.pools.add(wid, request)
    marker = f"log-{len(sim.events)}"
    if reported:
        test_id = types.SimpleNamespace(uid=uid, name=name)
        record = {"name": test_id, "status": status, "time_elapsed": str(duration), "logdir": marker}
        if late:
            asyncio.get_event_loop().call_later(45.0, runner.job.result.tests.append, record)
        else:
            runner.job.result.tests.append(record)
    sim.log("end", worker=wid, name=name, uid=uid, ident=ident, attempt=attempt, status=status,
            reported=reported, late=late, marker=marker, start=event["i"], duration=duration)


# ---------------------------------------------------------------------------
# scenario graphs


class Scenario:
    """Input to a graph build: selection, vm restrictions, worker set, parsing mode."""

    def __init__(self, tests, vm_strs=None, nets="net1", lazy=False, slots=None, suite=None, extra=None):
        self.tests = tests
        self.vm_strs = vm_strs if vm_strs is not None else {
            "vm1": "only CentOS\n", "vm2": "only Win10\n", "vm3": "only Ubuntu\n"}
        self.nets = nets
        self.lazy = lazy
        self.slots = slots
        self.suite = suite
        self.extra = extra or {}

    def key(self):
        return (self.tests, tuple(sorted(self.vm_strs.items())), self.nets, self.lazy, self.slots, self.suite,
                tuple(sorted(self.extra.items())))

    def to_json(self):
        return {"tests": self.tests, "vm_strs": self.vm_strs, "nets": self.nets, "lazy": self.lazy,
                "slots": self.slots, "suite": self.suite, "extra": self.extra,
                "ref_nets": getattr(self, "ref_nets", None)}

    @staticmethod
    def from_json(data):
        scenario = Scenario(data["tests"], data["vm_strs"], data["nets"], data["lazy"], data.get("slots"),
                            data.get("suite"), data.get("extra"))
        if data.get("ref_nets"):
            scenario.ref_nets = data["ref_nets"]
        return scenario

    def param_dict(self):
        params = {"nets": self.nets, "shared_pool": SHARED_POOL, "test_timeout": "100"}
        if self.slots is not None:
            params["slots"] = self.slots
        params.update(self.extra)
        return params


_GRAPHS = {}


def tests_str(selection):
    return "".join(f"only {part}\n" for part in selection.split("&"))


def build_graph(scenario):
    """Parse the scenario with the real parser; returns (graph, run_swarms). Cached per process (pristine)."""
    mods = setup()
    key = scenario.key()
    if key in _GRAPHS:
        return _GRAPHS[key]
    TestGraph, TestSwarm = mods["TestGraph"], mods["TestSwarm"]
    params = scenario.param_dict()
    restriction = tests_str(scenario.tests)
    if scenario.lazy:
        graph = TestGraph()
        graph.restrs.update(scenario.vm_strs)
        nodes = TestGraph.parse_flat_nodes(restriction, params)
        for node in nodes:
            node.update_restrs(scenario.vm_strs)
        graph.new_nodes(nodes)
        graph.parse_shared_root_from_object_roots(params)
        graph.new_workers(TestGraph.parse_workers(params))
    else:
        graph = TestGraph.parse_object_trees(None, restriction, "", dict(scenario.vm_strs), params)
    for node in graph.nodes:
        node.params  # make sure every parameter cache is materialised before copying
    _GRAPHS[key] = (graph, TestSwarm.run_swarms)
    return _GRAPHS[key]


def fresh_copy(scenario):
    mods = setup()
    graph, swarms = build_graph(scenario)
    graph_copy, swarms_copy = copy.deepcopy((graph, swarms))
    mods["TestSwarm"].run_swarms = swarms_copy
    return graph_copy


RUN_KEYS = ["max_tries", "max_concurrent_tries", "rerun_status", "stop_status", "test_timeout", "dry_run",
            "pool_filter", "pool_scope", "replay", "abort_on_error"]


# ---------------------------------------------------------------------------
# one simulated run


class Sim:
    def __init__(self, scenario, run_params=None, pools=None, durations=None, outcomes=None,
                 always_fail=None, previous=None, max_iterations=100_000, scratch=None):
        self.scenario = scenario
        self.run_params = dict(run_params or {})
        self.pools = pools or Pools()
        self.durations = durations or [0.1]
        self.outcomes = outcomes or ["PASS"]
        self.always_fail = always_fail or {}  # ident -> status
        self.fail_first = {}                  # ident -> status of its first execution only (a flaky test)
        self.previous = previous  # list of previous job result dicts or None
        self.max_iterations = max_iterations
        self.scratch = scratch
        self.events = []
        self.steps = 0
        self.max_steps = 3_000_000
        # watchdogs relative to progress (see watchdog()): virtual time since the last start/end/state operation,
        # and executions in total
        self.progress_at = 0
        self.progress_t = 0.0
        self.max_gap = 0
        self.max_idle_seen = 0.0
        self.executions = 0
        # a traversal that neither sleeps nor starts anything is spinning: completed runs stay below a few thousand
        # steps between two clock ticks (max_spin_seen is reported in the evidence)
        self.clock_seen, self.clock_steps_at, self.max_spin_seen, self.spin_bound = 0.0, 0, 0, 50_000
        try:
            timeout = float(self.run_params.get("test_timeout") or 3600)
        except (TypeError, ValueError):
            timeout = 3600.0
        try:
            self.tries_bound = max(1, int(self.run_params.get("max_tries") or (2 if self.run_params.get("replay") else 1)))
        except (TypeError, ValueError):
            self.tries_bound = 3
        self.idle_bound = 4 * timeout * self.tries_bound + 1000.0
        self.registrations = []
        self.attempts = {}
        self.workers = {}
        self.error = None
        self.vtime = 0.0
        self.iterations = 0
        self.graph = None
        self.runner = None
        self.loop = None

    # -- helpers used by the seams
    def log(self, kind, **data):
        event = {"i": len(self.events), "t": round(self.loop.time(), 6) if self.loop else 0.0, "kind": kind}
        event.update(data)
        self.events.append(event)
        if kind in ("start", "end", "door"):
            self.progress_at = self.steps
            self.progress_t = event["t"]
            if kind == "start":
                self.executions += 1
        return event

    def watchdog(self):
        """Progress-relative bounds, so that a run that cannot end is given up long before the step bound.

        Idle: the traversal itself gives up waiting for an occupied node after test_timeout * max_tries (twice that
        for an object creation) and a test without a result is abandoned after 300 s of polling, so more than
        4 * test_timeout * max_tries + 1000 virtual seconds without any test or state operation starting or ending
        is not a wait any more.  Executions: no node is run more than max_tries times per worker (and per creation
        step); six times that over all nodes and workers is far beyond any legitimate retrying.
        """
        if self.loop is None:
            return
        now = self.loop.time()
        if now != self.clock_seen or self.progress_at > self.clock_steps_at:
            self.clock_seen, self.clock_steps_at = now, self.steps
        spinning = self.steps - self.clock_steps_at
        self.max_spin_seen = max(self.max_spin_seen, spinning)
        if spinning > self.spin_bound:
            raise vloop.StepBound(f"more than {self.spin_bound} traversal steps without the clock advancing or any "
                                  f"test or state operation starting or ending")
        idle = now - self.progress_t
        self.max_idle_seen = max(self.max_idle_seen, idle)
        if idle > self.idle_bound:
            raise vloop.StepBound(f"no test or state operation started or ended for {idle:.0f} > {self.idle_bound:.0f} "
                                  f"virtual seconds while the workers keep traversing")
        nodes = len(self.graph.nodes) if getattr(self, "graph", None) is not None else 150
        limit = 6 * self.tries_bound * max(1, len(self.workers)) * max(10, nodes) + 100
        if self.executions > limit:
            raise vloop.StepBound(f"more than {limit} test executions for {nodes} nodes, {len(self.workers)} workers, "
                                  f"max_tries {self.tries_bound}")

    def identity(self, node):
        suffix = node.params["_name_map_file"].get("nets.cfg", "")
        if not suffix or node.is_flat():
            return node.setless_form
        return node.setless_form.replace(suffix, "<net>")

    def duration_for(self, ident, attempt):
        value = self.durations[stable_index(f"{ident}#{attempt}", len(self.durations))]
        timeout = float(self.run_params.get("test_timeout", 100))
        if isinstance(value, str):  # fractions of the timeout
            fraction = float(value[:-1])
            # keep the number of back-off iterations per test affordable: the back-off period is
            # max(timeout/1000, 0.1), so long fractions are only used with small timeouts
            if timeout >= 100:
                fraction = min(fraction, 0.05)
            elif timeout >= 10:
                fraction = min(fraction, 0.5)
            value = fraction * timeout
        return max(float(value), 0.001)

    def outcome_for(self, ident, attempt):
        if ident in self.always_fail:
            return self.always_fail[ident]
        if attempt == 0 and ident in self.fail_first:
            return self.fail_first[ident]
        return self.outcomes[stable_index(f"{ident}@{attempt}", len(self.outcomes))]

    # -- the run
    def prepare(self):
        mods = setup()
        global CURRENT
        CURRENT = self
        mods["TestWorker"]._session_cache = {}
        graph = fresh_copy(self.scenario)
        self.graph = graph
        for node in graph.nodes:
            for key, value in self.run_params.items():
                if value is None:
                    if key in node.params:
                        del node.params[key]
                else:
                    node.params[key] = str(value)
        for worker in graph.workers.values():
            self.workers[worker.id] = {
                "swarm": worker.swarm_id, "spawner": worker.params.get("nets_spawner"),
                "params": {k: v for k, v in worker.params.items() if k.startswith("nets")},
                "restrs": dict(worker.restrs),
            }
        runner = mods["runner_module"].TestRunner()
        params = self.scenario.param_dict()
        params.update({k: str(v) for k, v in self.run_params.items() if v is not None})
        config = {"param_dict": params, "vm_strs": dict(self.scenario.vm_strs),
                  "tests_str": tests_str(self.scenario.tests), "datadir.paths.logs_dir": self.scratch or "."}
        job = types.SimpleNamespace(
            result=types.SimpleNamespace(tests=[]), config=config, logdir=self.scratch or ".", timeout=0,
            unique_id="0" * 40)
        runner.job = job
        runner.status_server = job
        self.runner = runner
        self.params = params
        return graph, runner, params

    def run(self):
        graph, runner, params = self.prepare()
        loop = vloop.VirtualLoop(self.max_iterations)
        self.loop = loop
        asyncio.set_event_loop(loop)
        original_traverse = type(graph).traverse_object_trees

        async def tagged(graph_self, worker, run_params=None):
            asyncio.current_task().verif_worker = worker.id
            return await original_traverse(graph_self, worker, run_params)

        type(graph).traverse_object_trees = tagged
        try:
            runner.run_workers(graph, params)
        except BaseException as error:  # recorded, judged by the oracles
            if isinstance(error, (KeyboardInterrupt, SystemExit, HarnessError)):
                raise
            self.error = error
        finally:
            type(graph).traverse_object_trees = original_traverse
            self.vtime = loop.time()
            self.iterations = loop._iterations
            try:
                pending = [t for t in asyncio.all_tasks(loop) if not t.done()]
                for task in pending:
                    task.cancel()
                if pending:
                    try:
                        loop.run_until_complete(asyncio.gather(*pending, return_exceptions=True))
                    except BaseException:
                        pass
            finally:
                asyncio.set_event_loop(None)
                loop.close()
                global CURRENT
                CURRENT = None
        return self

    # -- views for the oracles
    def starts(self):
        return [e for e in self.events if e["kind"] == "start"]

    def ends(self):
        return [e for e in self.events if e["kind"] == "end"]

    def intervals(self):
        """(start event, end event or None) pairs."""
        ends = {e["start"]: e for e in self.ends()}
        return [(s, ends.get(s["i"])) for s in self.starts()]

    def brief_log(self, limit=80):
        lines = []
        pending = {}  # worker -> [count, first t, last t] of consecutive back-offs

        def flush():
            for worker, (count, first, last) in sorted(pending.items()):
                lines.append(f"{first:9.3f} {worker} BACKOFF x{count} until {last:.3f}")
            pending.clear()

        for e in self.events:
            if e["kind"] == "backoff":
                entry = pending.setdefault(e["worker"], [0, e["t"], e["t"]])
                entry[0] += 1
                entry[2] = e["t"] + e["delay"]
                continue
            if e["kind"] == "pick":
                continue
            flush()
            if e["kind"] == "start":
                lines.append(f"{e['t']:9.3f} {e['worker']} START {short(e['ident'])} #{e['attempt']} uid={e['uid']}")
            elif e["kind"] == "end":
                lines.append(f"{e['t']:9.3f} {e['worker']} END   {short(e['ident'])} #{e['attempt']} {e['status']}")
            elif e["kind"] == "door":
                keys = ",".join(f"{r['state']}{'+' if r.get('present') else '-'}" for r in e["requests"])
                lines.append(f"{e['t']:9.3f} {e['worker']} DOOR  {e['action']} [{keys}] {short(e.get('name') or '')}")
        flush()
        if len(lines) > limit:
            lines = lines[:limit] + [f"... {len(lines) - limit} more lines"]
        return lines


def short(name):
    """Drop the long vm variant part of a node name for readable logs."""
    return re.sub(r"\.qemu_kvm_(\w+)\.[\w.]*?\.(Linux|Windows)\.(\w+)\.[\w.]*?(x86_64|i386)", r".\3", name)
