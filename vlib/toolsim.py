"""Drive the manual tools (intertest_setup.<tool>, Manu.run) at the E1 seams on a virtual clock."""

from __future__ import annotations

import asyncio
import contextlib
import types

from . import sim as simmod, vloop
from .core import HarnessError


class ToolSim(simmod.Sim):
    """A Sim without a pre-parsed scenario: the tools parse their own graphs."""

    RAISABLE = {"RuntimeError": RuntimeError, "OSError": OSError, "KeyError": KeyError, "TypeError": TypeError,
                "TimeoutError": asyncio.TimeoutError, "ConnectionError": ConnectionRefusedError}

    def __init__(self, pools=None, durations=None, outcomes=None, scratch=None, fail=None, raise_for=None,
                 test_timeout=10, raise_type="RuntimeError"):
        super().__init__(None, run_params={"test_timeout": test_timeout}, pools=pools, durations=durations,
                         outcomes=outcomes, scratch=scratch)
        self.fail = fail or {}            # uid prefix (step tag) -> status for all its executions
        self.raise_for = raise_for        # uid prefix whose first execution raises
        self.raise_type = self.RAISABLE[raise_type]
        self.jobs = []
        self.raised = 0
        # the tools are judged on what they execute, not on the states: a missing state does not abort a test
        self.missing_state_aborts = False

    def status_override(self, uid, status):
        for prefix, forced in self.fail.items():
            if uid.startswith(prefix):
                return forced
        return status

    def identity(self, node):
        try:
            return super().identity(node)
        except Exception:
            return node.params["name"]

    def outcome_for(self, ident, attempt):
        return self.outcomes[simmod.stable_index(f"{ident}@{attempt}", len(self.outcomes))]


@contextlib.contextmanager
def session(tool_sim):
    """Install the sim as the current one, with a virtual event loop and the job seam of the selftests."""
    mods = simmod.setup()
    from avocado_i2n import intertest_setup

    loop = vloop.VirtualLoop(tool_sim.max_iterations)
    tool_sim.loop = loop
    previous_new_job = intertest_setup.new_job
    original_task = mods["runner_module"].TestRunner.run_test_task

    @contextlib.contextmanager
    def new_job(config):
        job = types.SimpleNamespace(
            result=types.SimpleNamespace(tests=[]), config=config, logdir=tool_sim.scratch or ".", timeout=0,
            unique_id="0" * 40)
        loader, runner = config["graph"].l, config["graph"].r
        loader.logdir = job.logdir
        runner.job = job
        tool_sim.jobs.append(job)
        yield job

    async def run_test_task(runner, node):
        uid = node.id_test.uid
        if tool_sim.raise_for and uid.startswith(tool_sim.raise_for) and not tool_sim.raised:
            tool_sim.raised += 1
            tool_sim.log("raise", worker=node.started_worker.id if node.started_worker else None, uid=uid,
                         name=node.params["name"])
            raise tool_sim.raise_type("injected failure of the test runner")
        return await original_task(runner, node)

    simmod.CURRENT = tool_sim
    intertest_setup.new_job = new_job
    mods["runner_module"].TestRunner.run_test_task = run_test_task
    mods["TestWorker"]._session_cache = {}
    asyncio.set_event_loop(loop)
    try:
        yield tool_sim
    finally:
        intertest_setup.new_job = previous_new_job
        mods["runner_module"].TestRunner.run_test_task = original_task
        tool_sim.vtime = loop.time()
        try:
            pending = [t for t in asyncio.all_tasks(loop) if not t.done()]
            for task in pending:
                task.cancel()
            if pending:
                try:
                    loop.run_until_complete(asyncio.gather(*pending, return_exceptions=True))
                except BaseException:
                    pass
        finally:
            asyncio.set_event_loop(None)
            loop.close()
            simmod.CURRENT = None
