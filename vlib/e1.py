"""E1 cases and oracles: generated traversal runs judged by history invariants.

One generated case = scenario (selection, vm restrictions, worker set, eager or
lazy parsing) x run parameters x initial pool population x per-(test, attempt)
durations and outcomes.  Every oracle below reads only the event log of the
simulated run (and the final graph), never the decision code it judges.
"""

from __future__ import annotations

import json
import re

from hypothesis import strategies as st

from . import sim as simmod
from .core import Violation, HarnessError, canon, derive_seed
from .vloop import Deadlock, StepBound

ROOT_STATES = ("root", "0root", "boot", "0boot")
OK_STATUSES = ("PASS", "WARN")  # (a late result is logged with its plain status)

# ---------------------------------------------------------------------------
# scenario catalogue over the shipped suite (G1)

DEFAULT_VMS = {"vm1": "only CentOS\n", "vm2": "only Win10\n", "vm3": "only Ubuntu\n"}

SELECTIONS = [
    # (name, selection, weight class)
    ("t1", "normal&tutorial1"),
    ("t12", "normal&tutorial1,tutorial2"),
    ("t2l", "leaves&tutorial2"),
    ("t3", "normal&tutorial3"),
    ("gui", "leaves&tutorial_gui"),
    ("t2gui", "leaves&tutorial2,tutorial_gui"),
    ("get", "leaves&tutorial_get"),
    ("getnoop", "leaves&tutorial_get..explicit_noop"),
    # a removable setup test selected as a leaf together with its dependant
    ("getgui", "leaves&tutorial_get..explicit_noop,tutorial_gui..client_noop"),
    # both producers of removable states selected together with the test cloned over them
    ("guiboth", "leaves&tutorial_gui,tutorial_get..implicit_both"),
    # a leaf together with one of its inner setup tests from another test set
    ("getconn", "leaves..tutorial_get..explicit_noop,nonleaves..connect"),
    ("finale", "leaves&tutorial_finale"),
    ("t1t3", "normal&tutorial1,tutorial3"),
    ("nongui", "normal&nongui"),
    ("connect", "nonleaves&connect"),
    ("nonleaves_vm1", "nonleaves&on_customize,connect,linux_virtuser"),
]

WORKER_SETS = [
    ("w1", "net1"),
    ("w2", "net1 net2"),
    ("w3", "net1 net2 net3"),
    ("w4", "net1 net2 net3 net4"),
    ("serial", "net0"),
    ("restricted", "net3 net4"),
    ("restricted5", "net3 net4 net5"),
    ("c2", "cluster1.net6 cluster1.net7"),
    ("cc", "cluster1.net6 cluster2.net6"),
    ("c4", "cluster1.net6 cluster1.net7 cluster2.net6 cluster2.net7"),
    ("mixed", "net1 cluster1.net6"),
    ("mixed3", "net1 net2 cluster1.net8"),
]


def catalogue(tier, lazy_share=True):
    """All scenarios of the tier as Scenario objects, cheapest first within a round-robin order."""
    small = ["t1", "t12", "t2l", "t3", "gui", "getnoop", "getgui", "getconn", "connect"]
    scenarios = []
    # other vm variants and extra parameters (few, the variety is in the worker sets below)
    fedora = dict(DEFAULT_VMS, vm1="only Fedora\n")
    for ws_name, nets in (("w1", "net1"), ("w2", "net1 net2"), ("cc", "cluster1.net6 cluster2.net6")):
        scenarios.append((f"t3-fedora/{ws_name}", simmod.Scenario("normal&tutorial3", fedora, nets, lazy=False)))
        scenarios.append((f"t12-fedora/{ws_name}", simmod.Scenario("normal&tutorial1,tutorial2", fedora, nets, lazy=False)))
        # a test that sets a reusable vm state and a removable image state of the same vm
        scenarios.append((f"gui-vmstate/{ws_name}", simmod.Scenario(
            "leaves&tutorial_gui", dict(DEFAULT_VMS), nets, lazy=False, extra={"set_state_vms_vm2": "guirunning"})))
    scenarios.append(("t3-fedora/w2/lazy", simmod.Scenario("normal&tutorial3", fedora, "net1 net2", lazy=True)))
    for sel_name, selection in SELECTIONS:
        for ws_name, nets in WORKER_SETS:
            big = sel_name not in small
            many = ws_name in ("w4", "c4", "mixed3")
            if tier == "quick" and big and many:
                continue
            if ws_name == "restricted5":
                # net5 only takes a Fedora vm1: with the CentOS selection it is incompatible with every test, which
                # eager parsing rejects as a whole (EmptyCartesianProduct); lazy parsing skips the worker per test
                if tier != "quick" or not big:
                    scenario = simmod.Scenario(selection, dict(DEFAULT_VMS), nets, lazy=True)
                    scenario.ref_nets = "net3 net4"
                    scenarios.append((f"{sel_name}/{ws_name}/lazy", scenario))
                continue
            scenarios.append((f"{sel_name}/{ws_name}", simmod.Scenario(selection, dict(DEFAULT_VMS), nets, lazy=False)))
            if lazy_share and ws_name in ("w2", "w3", "cc", "restricted", "mixed") and (tier != "quick" or not big):
                scenarios.append((f"{sel_name}/{ws_name}/lazy", simmod.Scenario(selection, dict(DEFAULT_VMS), nets, lazy=True)))
    return scenarios


# selections drawn per run on top of the catalogue (the catalogue fixes the shapes it knows; two defects lived in
# shapes it did not contain): 1-3 leaves of the shipped suite, optionally with one inner setup test
RANDOM_LEAVES = ["tutorial1", "tutorial2..files", "tutorial2..names", "tutorial3..no_remote", "tutorial_gui..client_noop",
                 "tutorial_gui..client_clicked", "tutorial_get..explicit_noop", "tutorial_get..explicit_clicked",
                 "tutorial_get..implicit_both", "tutorial_finale"]
RANDOM_INNER = ["connect", "on_customize", "linux_virtuser", "customize"]
RANDOM_WORKERS = [("w1", "net1", False), ("w2", "net1 net2", False), ("w2", "net1 net2", True), ("w3", "net1 net2 net3", True),
                  ("cc", "cluster1.net6 cluster2.net6", False), ("cc", "cluster1.net6 cluster2.net6", True),
                  ("mixed", "net1 cluster1.net6", False), ("mixed", "net1 cluster1.net6", True),
                  ("c2", "cluster1.net6 cluster1.net7", False), ("restricted", "net3 net4", True)]


def random_scenarios(seed_value, count):
    """`count` scenarios chosen by a generator seeded from VERIF_SEED and the shard (deterministic per run; the
    replay file carries the whole scenario, so a failure does not depend on this choice being repeated)."""
    import random

    rnd = random.Random(seed_value)
    out = []
    for _ in range(count):
        leaves = rnd.sample(RANDOM_LEAVES, rnd.choice([1, 2, 2, 3]))
        parts = ["leaves.." + leaf for leaf in sorted(leaves)]
        if rnd.random() < 0.3:
            parts.append("nonleaves.." + rnd.choice(RANDOM_INNER))
        ws_name, nets, lazy = rnd.choice(RANDOM_WORKERS)
        selection = ",".join(parts)
        name = "rnd:" + "+".join(p.split("..", 1)[1].replace("..", ".") for p in parts) + f"/{ws_name}" + ("/lazy" if lazy else "")
        out.append((name, simmod.Scenario(selection, dict(DEFAULT_VMS), nets, lazy=lazy)))
    return out


# ---------------------------------------------------------------------------
# reference information per scenario (from the eagerly parsed graph)

_INFO = {}


def scenario_info(scenario):
    key = scenario.key()
    if key in _INFO:
        return _INFO[key]
    mods = simmod.setup()
    eager = simmod.Scenario(scenario.tests, scenario.vm_strs, getattr(scenario, "ref_nets", None) or scenario.nets,
                            False, scenario.slots, scenario.suite, scenario.extra)
    graph, swarms = simmod.build_graph(eager)
    mods["TestSwarm"].run_swarms = swarms
    helper = simmod.Sim(eager)
    producible, idents, producers, removable = set(), set(), {}, set()
    for node in graph.nodes:
        if node.is_flat() or node.is_shared_root():
            continue
        ident = helper.identity(node)
        idents.add(ident)
        for request in simmod.state_requests(node.params, "set"):
            if request["state"] in ROOT_STATES:
                continue
            skey = simmod.state_key(request)
            producible.add(skey)
            producers.setdefault(skey, set()).add(ident)
            unset = simmod.state_requests(dict(node.params, **{
                f"unset_state_{request['type']}_{request['vm']}": request["state"]}), "unset")
    workers = scenario.nets.split()
    flat = mods["TestGraph"].parse_flat_nodes(simmod.tests_str(scenario.tests), scenario.param_dict())
    selected = sorted({n.setless_form for n in flat})
    info = {
        "producible": sorted(producible), "idents": sorted(idents), "workers": workers,
        "producers": {canon(list(k)): sorted(v) for k, v in producers.items()},
        "selected": selected, "nodes": len(graph.nodes),
    }
    _INFO[key] = info
    return info


# ---------------------------------------------------------------------------
# generators

DURATIONS = ["0.001T", "0.01T", "0.05T", "0.1T", "0.1T", "0.3T", "0.3T", "0.5T", "0.99T", "0.2T"]
ALL_SCOPES = ["own", "swarm", "cluster", "shared"]


@st.composite
def run_params(draw, bias):
    params = {}
    timeout = draw(st.sampled_from([1, 1, 10, 10, 100]))
    params["test_timeout"] = timeout
    retry = draw(st.integers(0, 3)) if bias.get("retries", True) else 0
    if retry:
        params["max_tries"] = draw(st.sampled_from([1, 2, 2, 3]))
        if draw(st.booleans()) or (bias.get("limit_concurrency") and draw(st.booleans())):
            # never more concurrent tries than tries: the combination is contradictory and nothing documents it
            params["max_concurrent_tries"] = draw(st.integers(1, max(1, min(2, params["max_tries"]))))
            if bias.get("limit_concurrency") and draw(st.booleans()):
                params["max_concurrent_tries"] = 1
        if draw(st.integers(0, 3)) == 0:
            params["rerun_status"] = " ".join(draw(st.lists(st.sampled_from(
                ["pass", "fail", "error", "warn", "skip", "cancel", "interrupted", "unknown"]), min_size=1, max_size=3, unique=True)))
        if draw(st.integers(0, 3)) == 0:
            params["stop_status"] = " ".join(draw(st.lists(st.sampled_from(
                ["pass", "fail", "error", "warn", "skip"]), min_size=1, max_size=2, unique=True)))
    scope_choice = draw(st.integers(0, 5)) if bias.get("scopes", True) else 0
    if scope_choice == 1:
        params["pool_scope"] = "own shared"
    elif scope_choice == 2:
        params["pool_scope"] = "own cluster shared"
    elif scope_choice == 3:
        params["pool_scope"] = "own swarm shared"
    elif scope_choice == 4:
        params["pool_scope"] = " ".join(["own"] + draw(st.lists(st.sampled_from(ALL_SCOPES[1:]), unique=True)))
    if bias.get("dry_run") and draw(st.integers(0, 5)) == 0:
        params["dry_run"] = "yes"
    if bias.get("pool_filter", True):
        choice = draw(st.sampled_from(["", "", "reuse", "copy", "copy", "block"]))
        if choice:
            params["pool_filter"] = choice
    return params


@st.composite
def pools(draw, info, bias):
    mode = draw(st.sampled_from(bias.get("pool_modes", ["empty", "shared", "shared", "synced", "residue", "residue"])))
    producible = info["producible"]
    shared, own = [], {}
    if mode == "empty" or not producible:
        return {"mode": "empty", "shared": [], "own": {}}
    chosen = draw(st.lists(st.sampled_from(producible), unique_by=canon, max_size=len(producible)))
    if mode == "shared":
        shared = chosen
    elif mode == "synced":
        shared = chosen
        own = {w: list(chosen) for w in info["workers"]}
    else:
        for skey in chosen:
            where = draw(st.integers(0, 3))
            if where in (0, 3):
                shared.append(skey)
            if where in (1, 3) or where == 2:
                holders = draw(st.lists(st.sampled_from(info["workers"]), min_size=1, unique=True))
                for holder in holders:
                    own.setdefault(holder, []).append(skey)
    return {"mode": mode, "shared": [list(k) for k in shared],
            "own": {w: [list(k) for k in keys] for w, keys in own.items()}}


@st.composite
def schedule(draw, info, bias):
    n = draw(st.sampled_from([1, 4, 8, 16]))
    palette = bias.get("durations", DURATIONS)
    durations = draw(st.lists(st.sampled_from(palette), min_size=n, max_size=n))
    fail_mode = draw(st.sampled_from(bias.get("fail_modes", ["none", "none", "some", "some", "always"])))
    outcomes = ["PASS"]
    always_fail = {}
    alphabet = list(bias.get("alphabet", ["FAIL", "ERROR", "WARN", "SKIP", "CANCEL", "INTERRUPTED", "NEVER"]))
    # a result that is never reported keeps its node occupied for the 300 s result wait, far beyond the timeout;
    # where the property presupposes that no test overruns, such outcomes are only drawn for single-worker runs
    if bias.get("never") == "single" and len(info["workers"]) == 1 and "NEVER" not in alphabet:
        alphabet.append("NEVER")
    if bias.get("late"):
        alphabet += ["LATE:PASS", "LATE:FAIL"]
    if fail_mode == "some":
        m = draw(st.sampled_from([4, 8, 16]))
        outcomes = draw(st.lists(st.sampled_from(["PASS", "PASS", "PASS"] + alphabet), min_size=m, max_size=m))
    elif fail_mode == "always" and info["idents"]:
        ident = draw(st.sampled_from(info["idents"]))
        always_fail = {ident: draw(st.sampled_from([a for a in alphabet if a != "WARN"] or ["FAIL"]))}
    return {"durations": durations, "outcomes": outcomes, "always_fail": always_fail}


@st.composite
def cases(draw, scenario_names, bias):
    name = draw(st.sampled_from(sorted(scenario_names)))
    scenario = scenario_names[name]
    info = scenario_info(scenario)
    case = {"scenario_name": name, "scenario": scenario.to_json()}
    case["run"] = draw(run_params(bias))
    case["pools"] = draw(pools(info, bias))
    case.update(draw(schedule(info, bias)))
    return case


# ---------------------------------------------------------------------------
# running a case


def run_case(case, scratch=None):
    scenario = simmod.Scenario.from_json(case["scenario"])
    initial = simmod.Pools(case["pools"].get("shared", ()), case["pools"].get("own", {}))
    sim = simmod.Sim(scenario, run_params=case["run"], pools=initial, durations=case["durations"],
                     outcomes=case["outcomes"], always_fail=case.get("always_fail"),
                     previous=case.get("previous"), scratch=scratch)
    sim.initial_pools = simmod.Pools(case["pools"].get("shared", ()), case["pools"].get("own", {}))
    sim.fail_first = dict(case.get("fail_first") or {})
    sim.run()
    sim.info = scenario_info(scenario)
    return sim


def max_tries_of(run):
    value = run.get("max_tries")
    if value is None:
        return 2 if run.get("replay") else 1
    return int(value)


def scope_group(sim, event):
    """Reuse scope of an execution: (kind, id) following the property's wording."""
    params = event["params"]
    scope = params.get("pool_scope", "own swarm cluster shared").split()
    spawner = params.get("nets_spawner")
    worker = event["worker"]
    if spawner == "lxc" and "swarm" not in scope:
        return "worker:" + worker
    if spawner == "remote" and "cluster" not in scope:
        return "swarm:" + sim.workers[worker]["swarm"]
    return "run"


def labels_of(sim, case):
    labels = [f"workers={len(sim.workers)}", "lazy" if case["scenario"]["lazy"] else "eager",
              "pools=" + case["pools"].get("mode", "?"), f"T={case['run'].get('test_timeout')}",
              "selection=" + ("random" if str(case.get("scenario_name", "?")).startswith("rnd:")
                              else str(case.get("scenario_name", "?")).split("/")[0])]
    starts = sim.starts()
    ends = sim.ends()
    if any(e["attempt"] > 0 for e in starts):
        labels.append("retry")
    if any(e["status"] not in OK_STATUSES for e in ends):
        labels.append("failure")
    if any(e["kind"] == "backoff" for e in sim.events):
        labels.append("backoff")
    if any(e["kind"] == "door" and e["action"] == "unset" for e in sim.events):
        labels.append("unset")
    if any(g.get("source", "").startswith("worker:") for s in starts for g in s["gets"] if g.get("source")):
        labels.append("served-from-other-worker")
    if any(g.get("source") == "shared" for s in starts for g in s["gets"]):
        labels.append("served-from-shared")
    spawners = {w["spawner"] for w in sim.workers.values()}
    labels.append("spawners=" + "+".join(sorted(str(s) for s in spawners)))
    if "pool_scope" in case["run"]:
        labels.append("scope-narrowed")
    if sim.error is not None:
        labels.append("error:" + type(sim.error).__name__)
    labels.append(f"executions<={min(len(starts) // 5 * 5 + 5, 50)}")
    return labels


def brief(sim, limit=60):
    return "\n".join(sim.brief_log(limit))


# ---------------------------------------------------------------------------
# oracles: each returns after raising Violation for the first hit


def _producer_failed(sim, skey, before_index, case):
    """Exception (a) of C01: some producer of the state (or the object's creation) has a finished
    attempt with a status other than PASS before the given event index."""
    producers = set(sim.info["producers"].get(canon(list(skey)), []))
    final_producers = sim.final_producers.get(canon(list(skey)), set())
    producers |= final_producers
    object_id = skey[0]
    for event in sim.events[:before_index]:
        if event["kind"] != "end" or event["status"] == "PASS":
            continue
        if event["ident"] in producers:
            return True
        start = sim.events[event["start"]]
        # creation of the object: object root or its configuration step
        if (start.get("object_root") or start.get("node_type") == "shared_configure_install") and any(
                v == object_id for k, v in start["params"].items() if k.startswith("object_id")):
            return True
    return False


def compute_final_producers(sim):
    producers = {}
    for node in sim.graph.nodes:
        if node.is_flat() or node.is_shared_root():
            continue
        ident = sim.identity(node)
        for request in simmod.state_requests(node.params, "set"):
            producers.setdefault(canon(list(simmod.state_key(request))), set()).add(ident)
    sim.final_producers = producers
    permanent = set()
    for test_object in sim.graph.objects:
        if test_object.key == "vms" and test_object.is_permanent():
            permanent.add(test_object.id)
    sim.permanent = permanent


def oracle_c01(sim, case):
    for start in sim.starts():
        for get in start["gets"]:
            if get["state"] in ROOT_STATES or get["source"] is not None:
                continue
            if (get["mode"] or "ra")[1:2] == "i":
                continue
            skey = tuple(get["key"])
            has_producer = bool(sim.final_producers.get(canon(list(skey))))
            if skey[0] in sim.permanent and not has_producer:
                continue
            if _producer_failed(sim, skey, start["i"], case):
                continue
            # classify where the state is, for the signature
            holders = sorted(w for w, keys in sim.pools.own.items() if skey in keys)
            in_shared = skey in sim.pools.shared
            initial_holders = sorted(w for w, keys in sim.initial_pools.own.items() if skey in keys)
            produced_by = sorted({e["worker"] for e in sim.ends()[:0]})
            produced = [e for e in sim.events[:start["i"]] if e["kind"] == "end" and e["status"] in OK_STATUSES
                        and any(tuple(s["key"]) == skey for s in sim.events[e["start"]]["sets"])]
            unset_before = [e for e in sim.events[:start["i"]] if e["kind"] == "door" and e["action"] == "unset"
                            and any(tuple(r["key"]) == skey for r in e["requests"])]
            if produced and not unset_before:
                producers_listed = [e["worker"] for e in produced
                                    if any(loc.split(":")[0] == e["worker"] for loc in get["locations"])]
                scope = get["scope"] or ALL_SCOPES
                disabled = [w for w in producers_listed if w != start["worker"]
                            and simmod.source_relation(sim.workers, start["worker"], w) not in scope]
                if disabled:
                    cause = ("the producing worker's pool is listed but its scope is disabled by pool_scope although the "
                             "run decision for the producer was shared with that worker")
                    sharing = scope_group(sim, start).split(":")[0]
                    cause += f" [{start['params'].get('nets_spawner')} consumer sharing run decisions per {sharing}]"
                elif not producers_listed:
                    cause = "produced in this run by a worker whose pool is not listed"
                else:
                    cause = "produced in this run, listed and permitted, yet not available"
            elif unset_before:
                cause = "removed by a cleanup before the dependant started"
            elif initial_holders:
                cause = "state only in the own pool of another worker (residue of a previous run) which is not listed"
            elif in_shared:
                cause = "state is in the shared pool but the shared scope is disabled and its producer was skipped"
            else:
                cause = "state exists nowhere and its producer was not run"
            yield Violation(
                {"oracle": "state-unavailable-at-start", "cause": cause},
                f"{start['worker']} started {start['ident']} at t={start['t']} needing {skey[2]} ({skey[1]}) of {skey[0][:40]}; "
                f"listed {get['locations']} scope {get['scope']}; initial own holders {initial_holders}, in shared: {in_shared}\n"
                + brief(sim), case)


def oracle_c02(sim, case):
    run = case["run"]
    if sim.error is not None:
        error = sim.error
        if isinstance(error, Deadlock):
            yield Violation({"oracle": "deadlock"}, f"all workers wait forever: {error}\n" + brief(sim), case)
        elif isinstance(error, StepBound):
            yield Violation({"oracle": "step-bound-exceeded"}, f"{error}\n" + brief(sim), case)
        elif isinstance(error, ValueError) and _invalid_settings(run):
            pass
        else:
            yield Violation({"oracle": "traversal-error", "error": type(error).__name__,
                             "where": _where(error)}, f"{error!r}\n" + brief(sim), case)
        return
    composites = max(1, len([n for n in sim.graph.nodes if not n.is_flat()]))
    bound = 3 * composites * max(1, max_tries_of(run)) * (float(run.get("test_timeout", 100)) + 300.0) + 1000.0
    if sim.vtime > bound:
        yield Violation({"oracle": "virtual-time-bound"}, f"run took {sim.vtime} virtual seconds > {bound}\n" + brief(sim), case)
    starts = sim.starts()
    if run.get("dry_run") == "yes":
        changing = [e for e in sim.events if e["kind"] == "door" and e["action"] in ("get", "unset", "set")]
        if starts or changing:
            yield Violation({"oracle": "dry-run-acts"}, f"dry run executed {len(starts)} tests, {len(changing)} state changes\n" + brief(sim), case)
        return
    # every selected test that is composable with some worker was executed and has a definite result
    reference_names = sim.info["selected"]
    nodes = [n for n in sim.graph.nodes if not n.is_flat() and not n.is_shared_root()]
    for selected in reference_names:
        pattern = re.compile(r"(\.|^)" + re.escape(selected) + r"(\.|$)")
        matching = [n for n in nodes if pattern.search(n.params["name"]) and len(n.cloned_nodes) == 0]
        reference = [i for i in sim.info["idents"] if pattern.search(i)]
        if not reference:
            continue  # not composable with any worker (restrictions exclude it)
        executed = [s for s in starts if pattern.search(s["name"])]
        # a selected test that itself produces states and found all of them present is reused, not executed (C03)
        reused = [e for e in sim.events if e["kind"] == "door" and e["action"] == "check" and e.get("all_present")
                  and pattern.search(e.get("name") or "")]
        if not executed and not reused:
            yield Violation({"oracle": "selected-test-not-executed"},
                            f"{selected} was never executed (nodes: {[n.params['shortname'] for n in matching][:4]})\n" + brief(sim), case)
    for node in nodes:
        pending = [r for r in node.results if r.get("status") == "UNKNOWN"]
        if pending:
            yield Violation({"oracle": "pending-result-left"},
                            f"{node.params['shortname']} keeps a pending UNKNOWN result after the run: {node.results}\n" + brief(sim), case)


def _where(error):
    import traceback
    frames = traceback.extract_tb(error.__traceback__)
    for frame in reversed(frames):
        if "avocado_i2n" in frame.filename:
            return f"{frame.filename.split('avocado_i2n/')[-1]}:{frame.name}"
    return "?"


def _invalid_settings(run):
    try:
        if "max_tries" in run and int(run["max_tries"]) < 0:
            return True
    except (TypeError, ValueError):
        return True
    valid = {"fail", "error", "pass", "warn", "skip", "cancel", "interrupted", "unknown"}
    for key in ("rerun_status", "stop_status"):
        if key in run and set(filter(None, str(run[key]).replace(",", " ").split())) - valid:
            return True
    return False


def oracle_c03(sim, case):
    run = case["run"]
    budget = max(1, max_tries_of(run))
    counts = {}
    for start in sim.starts():
        if start["flat"] or start["clones"]:
            yield Violation({"oracle": "flat-or-clone-source-executed"},
                            f"{start['ident']} executed although flat={start['flat']} clones={start['clones']}\n" + brief(sim), case)
        if start.get("node_type") == "shared_configure_install":
            continue  # first step of the two-step creation counts with the second
        group = scope_group(sim, start)
        counts.setdefault((start["ident"], group), []).append(start)
    for (ident, group), events in counts.items():
        if len(events) > budget:
            kind = "creation" if events[0].get("object_root") else "stateful" if events[0]["sets"] else "stateless"
            yield Violation({"oracle": "executed-more-than-budget", "kind": kind, "budget": "1" if budget == 1 else "max_tries"},
                            f"{ident} executed {len(events)}x in scope {group} by {[e['worker'] for e in events]} with budget {budget}\n" + brief(sim), case)
    # states found at the first examination are not recreated
    first_scan = {}
    for event in sim.events:
        if event["kind"] == "door" and event["action"] == "check":
            ident_group = (event["ident"], event["group"]) if "ident" in event else None
            if ident_group and ident_group not in first_scan:
                first_scan[ident_group] = event
    for (ident, group), event in first_scan.items():
        if event.get("all_present") and counts.get((ident, group)):
            later = [s for s in counts[(ident, group)] if s["i"] > event["i"]]
            if later:
                # was a try of a worker that shares setup differently (another scope group) already started? then the
                # examiner counted a foreign try as one of its own scope and "retried" (root cause of C01-F2..F4)
                foreign = [s for s in sim.starts() if s["ident"] == ident and s["i"] < later[0]["i"]
                           and scope_group(sim, s) != group]
                sig = {"oracle": "executed-despite-present-states"}
                if foreign:
                    sig["after"] = (f"a try of a worker sharing per {scope_group(sim, foreign[0]).split(':')[0]} counted by an "
                                    f"examiner sharing per {group.split(':')[0]}")
                yield Violation(sig,
                                f"{ident}: all its states were present at the first scan by {event['worker']} at t={event['t']} "
                                f"yet it was executed by {[s['worker'] for s in later]} in scope {group}"
                                + (f" (after tries by {[s['worker'] for s in foreign]} of scope {scope_group(sim, foreign[0])})" if foreign else "")
                                + "\n" + brief(sim), case)


def oracle_c04(sim, case):
    run = case["run"]
    limit = int(run.get("max_concurrent_tries", max_tries_of(run)))
    limit = max(limit, 1)
    groups = {}
    for start, end in sim.intervals():
        if start.get("node_type") == "shared_configure_install":
            ident = "creation:" + str(start["params"].get("object_root") or start["ident"])
        elif start.get("object_root"):
            ident = "creation:" + str(start["object_root"])
        else:
            ident = start["ident"]
        end_t = end["t"] if end else float("inf")
        groups.setdefault((ident, scope_group(sim, start)), []).append((start["t"], end_t, start["worker"]))
    for (ident, group), intervals in groups.items():
        points = []
        for s, e, w in intervals:
            points.append((s, 1, w))
            points.append((e, -1, w))
        points.sort(key=lambda p: (p[0], p[1]))
        level, workers_in = 0, []
        for t, delta, w in points:
            level += delta
            if delta > 0:
                workers_in.append(w)
            else:
                workers_in.remove(w)
            if level > limit and len(set(workers_in)) > 1:
                yield Violation({"oracle": "concurrent-execution-over-limit"},
                                f"{ident} executed by {sorted(set(workers_in))} at the same time t={t} in scope {group}, limit {limit}\n" + brief(sim, 120), case)
    # back-off period and path reset
    expected = round(max(float(run.get("test_timeout", 100)) * max(max_tries_of(run), 0) / 1000, 0.1), 2)
    if max_tries_of(run) == 0:
        expected = 0.1
    awaiting_pick = {}
    for event in sim.events:
        if event["kind"] == "backoff" and event.get("worker"):
            if abs(event["delay"] - expected) > 1e-9:
                yield Violation({"oracle": "backoff-period"},
                                f"{event['worker']} backed off for {event['delay']} instead of {expected}\n" + brief(sim), case)
            awaiting_pick[event["worker"]] = event
        elif event["kind"] == "pick" and event["worker"] in awaiting_pick:
            backoff = awaiting_pick.pop(event["worker"])
            if not event["from_root"]:
                yield Violation({"oracle": "path-not-reset-after-backoff"},
                                f"{event['worker']} continued from {event['parent']} after backing off at t={backoff['t']}\n" + brief(sim), case)


def oracle_c05(sim, case):
    run = case["run"]
    intervals = sim.intervals()
    for event in sim.events:
        if event["kind"] != "door":
            continue
        if event["action"] == "get" and run.get("pool_filter", "reuse") in ("reuse", "block"):
            yield Violation({"oracle": "sync-with-reuse-filter"},
                            f"{event['worker']} copied states {[r['state'] for r in event['requests']]} while backing out with pool_filter={run.get('pool_filter', 'reuse')}\n" + brief(sim), case)
        if event["action"] != "unset":
            continue
        worker, t = event["worker"], event["t"]
        for request in event["requests"]:
            skey = tuple(request["key"])
            if (request["mode"] or "ri")[0] != "f":
                yield Violation({"oracle": "unset-of-unmarked-state"},
                                f"{worker} removed {request['state']} whose unset mode is {request['mode']}\n" + brief(sim), case)
            marked = sim.removable.get(canon(list(skey)))
            if marked is False:
                yield Violation({"oracle": "unset-of-unmarked-state"},
                                f"{worker} removed {request['state']} which its producer does not mark for removal\n" + brief(sim), case)
            group = event.get("group", "run")
            for start, end in intervals:
                needs = any(tuple(g["key"]) == skey for g in start["gets"])
                if not needs:
                    continue
                same_scope = scope_group(sim, start) == group or start["worker"] == worker
                if not same_scope:
                    continue
                end_t = end["t"] if end else float("inf")
                if start["worker"] == worker:
                    where = "same-worker"
                elif sim.workers[start["worker"]]["swarm"] == sim.workers[worker]["swarm"]:
                    where = "same-swarm"
                else:
                    where = "other-swarm"
                if where == "other-swarm":
                    # which kind of worker decided: a remote worker's decision only covers its own swarm (C05-F1),
                    # a local worker's decision covers every involved worker
                    where = "other-swarm/" + str(sim.workers[worker]["spawner"]) + "-remover"
                if start["i"] < event["i"] and (end is None or end["i"] > event["i"]):
                    yield Violation({"oracle": "removed-while-dependant-running", "dependant-on": where},
                                    f"{worker} removed {request['state']} at t={t} while {start['worker']} runs {start['ident']}\n" + brief(sim, 120), case)
                if start["i"] > event["i"]:
                    recreated = any(e["kind"] == "end" and e["i"] > event["i"] and e["i"] < start["i"] and e["status"] in OK_STATUSES
                                    and any(tuple(s["key"]) == skey for s in sim.events[e["start"]]["sets"]) for e in sim.events)
                    if not recreated:
                        yield Violation({"oracle": "removed-before-dependant-started", "dependant-on": where},
                                        f"{worker} removed {request['state']} at t={t} but {start['worker']} starts dependant {start['ident']} at t={start['t']}\n" + brief(sim, 120), case)
    # states produced for reuse are still there at the end
    for end in sim.ends():
        if end["status"] not in OK_STATUSES:
            continue
        start = sim.events[end["start"]]
        for request in start["sets"]:
            skey = tuple(request["key"])
            if request["state"] in ROOT_STATES or sim.removable.get(canon(list(skey))) is not False:
                continue
            if skey not in sim.pools.own_of(end["worker"]):
                yield Violation({"oracle": "reusable-state-lost"},
                                f"{request['state']} produced by {end['worker']} is gone at the end of the run\n" + brief(sim), case)


def compute_removable(sim):
    """state key -> True if some producer marks it for removal (unset_mode f.), False if none does."""
    removable = {}
    Params = simmod._mods["Params"]
    for node in sim.graph.nodes:
        if node.is_flat() or node.is_shared_root():
            continue
        for request in simmod.state_requests(node.params, "set"):
            params = Params(node.params)
            vm_params = params.object_params(request["vm"])
            typed = (vm_params.object_params(request["image"]) if request["image"] else vm_params).object_params(request["type"])
            mode = typed.get("unset_mode", "ri")
            key = canon(list(simmod.state_key(request)))
            removable[key] = removable.get(key, False) or mode[0] == "f"
    sim.removable = removable


def oracle_c08(sim, case):
    shared_location = ":" + simmod.SHARED_POOL
    for event in sim.events:
        if event["kind"] in ("door", "start") and event.get("endpoint") and event.get("worker") in sim.workers:
            wparams = sim.workers[event["worker"]]["params"]
            expected = f"{wparams.get('nets_shell_host')}:{wparams.get('nets_shell_port')}"
            if event["endpoint"] != expected:
                what = "state control" if event["kind"] == "door" else "test execution"
                yield Violation({"oracle": "session-of-another-worker", "what": what},
                                f"{what} of {event['worker']} ({expected}) went through a session to {event['endpoint']}\n"
                                + brief(sim), case)
    passed = {}   # state key -> workers with a PASS result of a producer so far
    warned = {}
    end_by_start = {e["start"]: e for e in sim.ends()}
    for event in sim.events:
        if event["kind"] == "end":
            start = sim.events[event["start"]]
            target = passed if event["status"] == "PASS" else warned if event["status"] == "WARN" else None
            if target is not None and event["reported"]:
                target.setdefault(start["ident"], set()).add(event["worker"])
            continue
        if event["kind"] != "start":
            continue
        params, worker = event["params"], event["worker"]
        wparams = sim.workers[worker]["params"]
        if params.get("nets") != worker or not event["node_worker_in_name"]:
            yield Violation({"oracle": "executed-on-foreign-worker"},
                            f"{worker} executed {event['name']} parsed for nets={params.get('nets')}\n" + brief(sim), case)
        for key in ("nets_host", "nets_gateway", "nets_spawner", "nets_shell_host", "nets_shell_port"):
            if params.get(key) != wparams.get(key):
                yield Violation({"oracle": "worker-connection-params-differ", "key": key},
                                f"{event['ident']} on {worker}: {key}={params.get(key)!r}, worker has {wparams.get(key)!r}", case)
        for vm, restr in sim.workers[worker]["restrs"].items():
            if vm not in params.get("vms", "").split():
                continue
            vm_name = params.get(f"object_id_{vm}", "")
            if vm_name and not restriction_allows(restr, vm_name):
                yield Violation({"oracle": "executed-despite-worker-restriction"},
                                f"{worker} restricts {vm} by {restr!r} but executed {event['ident']} with {vm_name}", case)
        for get in event["gets"]:
            if get["state"] in ROOT_STATES:
                continue
            producers = sim.final_producers.get(canon(list(get["key"])), set())
            if not producers:
                continue
            required = {shared_location}
            allowed = {shared_location}
            for ident in producers:
                for w in passed.get(ident, ()):  # noqa
                    required.add(f"{w}:{params.get('swarm_pool', '/mnt/local/images/swarm')}")
                for w in warned.get(ident, ()):  # noqa
                    allowed.add(f"{w}:{params.get('swarm_pool', '/mnt/local/images/swarm')}")
            allowed |= required
            listed = set(get["locations"])
            if not required <= listed:
                yield Violation({"oracle": "producer-pool-not-listed"},
                                f"{event['ident']} on {worker} needs {get['state']}: listed {sorted(listed)}, "
                                f"but {sorted(required - listed)} produced it\n" + brief(sim), case)
            if not listed <= allowed:
                yield Violation({"oracle": "non-producer-pool-listed"},
                                f"{event['ident']} on {worker} needs {get['state']}: listed {sorted(listed)}, "
                                f"but {sorted(listed - allowed)} did not produce it\n" + brief(sim), case)
            for location in listed:
                wid = location.split(":")[0]
                if not wid:
                    continue
                source = sim.workers.get(wid)
                if source is None:
                    yield Violation({"oracle": "unknown-worker-listed"}, f"{location} names no worker of this run", case)
                for key, value in source["params"].items():
                    if key.startswith("nets_") and params.get(f"{key}_{wid}") != value:
                        yield Violation({"oracle": "source-access-params-differ"},
                                        f"{event['ident']} on {worker}: {key}_{wid}={params.get(f'{key}_{wid}')!r}, source worker has {value!r}", case)


def restriction_allows(restr, name):
    """Evaluate 'only a, b' / 'no a, b' lines on a dotted variant name (simple variant names only)."""
    variants = set(name.replace("-", ".").split("."))
    for line in restr.splitlines():
        line = line.strip()
        if line.startswith("only "):
            options = [o.strip() for o in line[5:].split(",")]
            if not any(o in variants for o in options):
                return False
        elif line.startswith("no "):
            options = [o.strip() for o in line[3:].split(",")]
            if any(o in variants for o in options):
                return False
    return True


def oracle_registers(sim, case):
    """Visit bookkeeping: every registered visit is visible, with its exact count, through the registers of
    every equivalent (same worker-invariant identity) node of every worker."""
    KINDS = ("_picked_by_setup_nodes", "_picked_by_cleanup_nodes", "_dropped_setup_nodes", "_dropped_cleanup_nodes")
    owners = {}
    for node in sim.graph.nodes:
        for kind in KINDS:
            owners.setdefault(id(getattr(node, kind)), (kind, sim.identity(node)))
    expected = {}
    lost = 0
    for register, other, worker in sim.registrations:
        owner = owners.get(id(register))
        if owner is None:
            lost += 1
            continue
        key = (owner[0], owner[1], sim.identity(other), worker)
        expected[key] = expected.get(key, 0) + 1
    if lost:
        yield Violation({"oracle": "visit-register-discarded"},
                        f"{lost} visits were registered in registers that no node of the final graph holds any more\n" + brief(sim), case)
    workers = {w.id: w for w in sim.graph.workers.values()}
    by_identity = {}
    for node in sim.graph.nodes:
        by_identity.setdefault(sim.identity(node), []).append(node)
    nodes_of = {sim.identity(n): n for n in sim.graph.nodes}
    for (kind, owner_ident, other_ident, worker), count in sorted(expected.items()):
        other = nodes_of.get(other_ident)
        if other is None:
            continue
        for node in by_identity.get(owner_ident, []):
            got = getattr(node, kind).get_counters(other, workers[worker])
            if got != count:
                yield Violation({"oracle": "visit-counter-not-shared", "kind": kind.strip("_")},
                                f"{kind} of {node.params['shortname']} reports {got} visits of {other_ident[:60]} by {worker}, "
                                f"{count} were registered for this identity\n" + brief(sim), case)
    for ident, nodes in by_identity.items():
        if len(nodes) < 2 or nodes[0].is_flat():
            continue
        for kind in KINDS:
            if len({id(getattr(n, kind)) for n in nodes}) != 1:
                yield Violation({"oracle": "equivalent-nodes-do-not-share-register", "kind": kind.strip("_")},
                                f"{[n.params['shortname'] for n in nodes]} hold different {kind} registers", case)
        for node in nodes:
            others = {id(n) for n in nodes if n is not node}
            if {id(n) for n in node.bridged_nodes} != others:
                yield Violation({"oracle": "bridging-incomplete-or-asymmetric"},
                                f"{node.params['shortname']} bridged with {[n.params['shortname'] for n in node.bridged_nodes]} "
                                f"but equivalent nodes are {[n.params['shortname'] for n in nodes if n is not node]}", case)


ORACLES = {"C01": oracle_c01, "C02": oracle_c02, "C03": oracle_c03, "C04": oracle_c04,
           "C05": oracle_c05, "C08": oracle_c08, "REG": oracle_registers}


def judge(sim, case, prop, known=()):
    """Evaluate the property's oracle over the whole history; an unlisted violation wins over a listed one."""
    compute_final_producers(sim)
    compute_removable(sim)
    annotate_scans(sim)
    found = {}
    for violation in ORACLES[prop](sim, case) or ():
        found.setdefault(violation.key, violation)
    unknown = [v for k, v in found.items() if k not in known]
    if unknown:
        raise unknown[0]
    if found:
        raise next(iter(found.values()))


def annotate_scans(sim):
    """Attach identity, scope group and 'all states present' to the scan (door check) events."""
    names = {}
    for node in sim.graph.nodes:
        if not node.is_flat():
            names[node.params["name"]] = node
    for event in sim.events:
        if event["kind"] != "door":
            continue
        node = names.get(event.get("name"))
        if node is None:
            continue
        event["ident"] = sim.identity(node)
        pseudo = {"params": {"pool_scope": node.params.get("pool_scope", "own swarm cluster shared"),
                             "nets_spawner": node.params.get("nets_spawner")}, "worker": event["worker"]}
        event["group"] = scope_group(sim, pseudo)
        if event["action"] == "check":
            event["all_present"] = bool(event["requests"]) and all(r.get("present") for r in event["requests"])


def cross_hits(sim, case, own):
    hits = []
    for prop, oracle in ORACLES.items():
        if prop == own:
            continue
        for violation in oracle(sim, case) or ():
            hits.append((prop, violation))
            break
    return hits


# ---------------------------------------------------------------------------
# generic driver for the E1 properties

NONTRIVIAL = {
    "C01": lambda sim, case, labels: len(sim.workers) >= 2 and (
        "served-from-other-worker" in labels or "served-from-shared" in labels or "failure" in labels),
    "C02": lambda sim, case, labels: len(sim.workers) >= 2 or "failure" in labels or "retry" in labels,
    "C03": lambda sim, case, labels: len(sim.workers) >= 2 and ("backoff" in labels or "served-from-other-worker" in labels),
    "C04": lambda sim, case, labels: len(sim.workers) >= 2 and "backoff" in labels,
    "C05": lambda sim, case, labels: "unset" in labels,
    "C08": lambda sim, case, labels: "served-from-other-worker" in labels,
}


def make_run(prop, bias, scenario_filter=None, quick_cases=1280, thorough_cases=16000, per_shard_scenarios=(7, 18),
             enumerate_failures=False, random_scenarios_per_shard=(2, 6), flaky_retries=False,
             multi_swarm_retries=False):
    def run(ctx):
        simmod.setup()
        items = catalogue(ctx.tier)
        if scenario_filter:
            items = [(n, s) for n, s in items if scenario_filter(n, s)]
        # which part of the catalogue a quick run sees depends on VERIF_SEED: a seeded shuffle, so that consecutive
        # seeds see different halves (a rotation by the seed would show nearly the same scenarios at seeds 1, 2, 3)
        import random

        random.Random(derive_seed(ctx.seed, "catalogue-order")).shuffle(items)
        mine = ctx.my_slice(items)
        count = per_shard_scenarios[0] if ctx.tier == "quick" else per_shard_scenarios[1]
        mine = dict(mine[:count])
        drawn = random_scenarios(ctx.shard_seed("random-selections"), random_scenarios_per_shard[0 if ctx.tier == "quick" else 1])
        if scenario_filter:
            drawn = [(n, s) for n, s in drawn if scenario_filter(n, s)]
        mine.update(dict(drawn))
        if not mine:
            return
        ctx.extra["scenarios"] = len(mine)

        def body(case):
            sim = run_case(case, ctx.scratch)
            labels = labels_of(sim, case)
            if sim.error is None:
                # how far below the watchdog bounds the completed traversals stay
                ctx.extra["max_traversal_steps"] = max(ctx.extra.get("max_traversal_steps", 0), sim.steps)
                ctx.extra["max_loop_iterations"] = max(ctx.extra.get("max_loop_iterations", 0), sim.iterations)
                ctx.extra["max_steps_without_progress"] = max(ctx.extra.get("max_steps_without_progress", 0), sim.max_gap)
                ctx.extra["max_steps_without_clock_advance"] = max(ctx.extra.get("max_steps_without_clock_advance", 0), sim.max_spin_seen)
                ctx.extra["max_idle_fraction_of_bound_x1000"] = max(ctx.extra.get("max_idle_fraction_of_bound_x1000", 0),
                                                                    int(1000 * sim.max_idle_seen / sim.idle_bound))
                composites = max(1, len([n for n in sim.graph.nodes if not n.is_flat()]))
                per_node = sim.executions / composites
                ctx.extra["max_executions_per_node_x1000"] = max(ctx.extra.get("max_executions_per_node_x1000", 0), int(per_node * 1000))
            try:
                judge(sim, case, prop, ctx.known)
            finally:
                nontrivial = NONTRIVIAL[prop](sim, case, labels)
                sample = {"case": case, "executions": len(sim.starts()), "virtual_time": round(sim.vtime, 3),
                          "log": sim.brief_log(12)}
                ctx.case(case, nontrivial, labels + (["nontrivial"] if nontrivial else []), sample=sample)
            for other, violation in cross_hits(sim, case, prop):
                ctx.extra["cross_hits_" + other] = ctx.extra.get("cross_hits_" + other, 0) + 1

        for case in REGRESSION_CASES.get(prop, []) if ctx.shard == 0 else []:
            try:
                body(case)
            except Violation as violation:
                ctx.record_violation(violation, case)
        ctx.hyp(cases(mine, bias), body, ctx.budget(quick_cases, thorough_cases), name="traverse",
                shrink=(ctx.tier == "thorough"))
        if multi_swarm_retries:
            # enumerated, not sampled: every scenario of the shard whose workers belong to different swarms, with
            # retries on (tests are then run back to back and a second worker is admitted while a try is pending)
            # and six fixed duration palettes - the situation in which one swarm finishes while the other still
            # works below a removable state
            swarm_of = lambda net: net.split(".")[0] if "." in net else "localhost"
            names = [n for n in sorted(mine) if len({swarm_of(x) for x in mine[n].nets.split()}) >= 2]
            names = names[:(3 if ctx.tier == "quick" else 12)]
            palettes = [["0.3T"], ["0.1T", "0.5T", "0.99T", "0.2T"], ["0.5T", "0.1T", "0.2T", "0.99T"],
                        ["0.99T", "0.2T", "0.1T", "0.5T"], ["0.2T", "0.99T", "0.5T", "0.1T"],
                        ["0.05T", "0.3T", "0.6T", "0.99T", "0.1T", "0.8T", "0.2T", "0.5T"]]
            for name in names:
                scenario = mine[name]
                for tries in (2, 3):
                    for palette in palettes:
                        case = {"scenario_name": name, "scenario": scenario.to_json(),
                                "run": {"test_timeout": 1, "max_tries": tries},
                                "pools": {"mode": "empty", "shared": [], "own": {}}, "durations": list(palette),
                                "outcomes": ["PASS"], "always_fail": {}}
                        try:
                            body(case)
                        except Violation as violation:
                            if not ctx.record_violation(violation, case):
                                continue
            ctx.exhaustive_parts.append("every multi-swarm scenario of the shard (quick: first 3) with max_tries 2/3 and "
                                        "six fixed duration palettes, empty pools")
        if flaky_retries:
            # enumerated, not sampled: every test of the shard's first multi-worker scenarios flaky (first execution
            # fails, the retry passes) with retries on, concurrency limited to one and tries that together last longer
            # than one timeout - the situation in which a waiting worker must keep waiting
            names = [n for n in sorted(mine) if len(mine[n].nets.split()) >= 2][:(1 if ctx.tier == "quick" else 4)]
            for name in names:
                scenario = mine[name]
                info = scenario_info(scenario)
                for ident in info["idents"]:
                    for tries in (2, 3):
                        for duration in ("0.99T", "0.6T"):
                            case = {"scenario_name": name, "scenario": scenario.to_json(),
                                    "run": {"test_timeout": 1, "max_tries": tries, "max_concurrent_tries": 1},
                                    "pools": {"mode": "empty", "shared": [], "own": {}}, "durations": [duration],
                                    "outcomes": ["PASS"], "always_fail": {}, "fail_first": {ident: "FAIL"}}
                            try:
                                body(case)
                            except Violation as violation:
                                if not ctx.record_violation(violation, case):
                                    continue
            ctx.exhaustive_parts.append("every test of the shard's first multi-worker scenario(s) flaky (first execution "
                                        "FAIL) with max_tries 2/3, max_concurrent_tries 1 and durations 0.99T/0.6T")
        if enumerate_failures:
            # enumerated, not sampled: every test of the scenario failing persistently, with and without retries
            # (quick: the shard's first scenario only)
            names = sorted(mine)[:1] if ctx.tier == "quick" else sorted(mine)[:4]
            for name in names:
                scenario = mine[name]
                info = scenario_info(scenario)
                for ident in info["idents"]:
                    for status in (("FAIL", "NEVER") if ctx.tier == "quick" else ("FAIL", "ERROR", "SKIP", "NEVER")):
                        for tries in (None, 2):
                            case = {"scenario_name": name, "scenario": scenario.to_json(),
                                    "run": {"test_timeout": 1} if tries is None else {"test_timeout": 1, "max_tries": tries},
                                    "pools": {"mode": "empty", "shared": [], "own": {}}, "durations": ["0.1T"],
                                    "outcomes": ["PASS"], "always_fail": {ident: status}}
                            try:
                                body(case)
                            except Violation as violation:
                                if not ctx.record_violation(violation, case):
                                    continue
            ctx.exhaustive_parts.append("every test of the shard's scenario(s) failing persistently (FAIL/NEVER[/ERROR/SKIP]) "
                                        "with max_tries unset and 2")
        from . import memo
        memo.self_check()
        ctx.extra["memo_hits"] = memo.STATS["hits"]
        ctx.extra["memo_misses"] = memo.STATS["misses"]

    return run


def make_replay(prop):
    def replay(ctx, case):
        simmod.setup()
        sim = run_case(case, ctx.scratch)
        print("\n".join(sim.brief_log(400)))
        if sim.error is not None:
            print("run ended with", repr(sim.error))
        try:
            judge(sim, case, prop)
        except Violation as violation:
            return [violation]
        return []

    return replay




def _load_regressions():
    import glob
    import os

    from .core import VERIF

    cases = {}
    for path in sorted(glob.glob(os.path.join(VERIF, "replays", "C*", "*.json"))):
        prop = os.path.basename(os.path.dirname(path))
        try:
            data = json.load(open(path))
        except ValueError as error:
            raise HarnessError(f"unreadable regression input {path}: {error}")
        case = data.get("case", data)
        if "scenario" in case:
            cases.setdefault(prop, []).append(case)
    return cases


REGRESSION_CASES = _load_regressions()

COMMON_RULE = (
    "case = scenario of the shipped suite (test selection x worker set incl. lxc/serial/remote clusters/restricted "
    "nets x eager or lazy parsing) x run parameters (pool_scope, max_tries, max_concurrent_tries, rerun/stop status, "
    "test_timeout, pool_filter, dry_run) x initial population of the shared pool and of every worker's own pool x "
    "per-(test identity, attempt) durations (fractions of the timeout) and outcomes (7 statuses + result never "
    "reported, or one test failing persistently); the real traversal runs on a virtual clock. Distinct = canonical "
    "JSON of the case. Non-trivial when "
)
RULES = {
    "C01": COMMON_RULE + ">=2 workers and a state was served from another worker's pool or a pre-existing pool entry, or a test failed.",
    "C02": COMMON_RULE + ">=2 workers, or some outcome is not PASS, or retries are configured.",
    "C03": COMMON_RULE + ">=2 workers converged on a shared setup test (a back-off happened or a state was reused from another worker).",
    "C04": COMMON_RULE + ">=2 workers and at least one back-off from an occupied test was observed.",
    "C05": COMMON_RULE + "at least one state removal (unset request) was issued.",
    "C08": COMMON_RULE + "a test consumed a state produced by another worker in the same run.",
}
ASSUMPTIONS = [
    "test execution and state control are replaced by a model at the seams the selftests use "
    "(TestRunner.run_test_task, cartgraph.node.door, remote login, spawner, worker start): a passing test adds the "
    "states it sets to the executing worker's own pool and caches fetched states there; a scan answers from the "
    "own pool and the listed permitted locations",
    "virtual-clock asyncio loop preserves run-to-completion between awaits",
    "third-party virttest Cartesian parser memoised per input sequence and Params.object_params replaced by an "
    "equivalent faster implementation (both self-checked against the originals)",
    "run parameters are written into the parameters of every parsed node instead of re-parsing the graph per case",
]
BIASES = {
    "C01": {"dry_run": False},
    "C02": {"dry_run": True},
    "C03": {"dry_run": False, "fail_modes": ["none", "none", "some", "some", "always"], "never": "single", "late": True,
            "alphabet": ["FAIL", "ERROR", "WARN", "SKIP", "CANCEL", "INTERRUPTED"]},
    "C04": {"dry_run": False, "limit_concurrency": True, "durations": ["0.1T", "0.3T", "0.5T", "0.5T", "0.8T", "0.99T", "0.99T", "0.2T", "0.6T"],
            "fail_modes": ["none", "some", "some"], "alphabet": ["FAIL", "ERROR", "WARN", "SKIP"]},
    "C05": {"dry_run": False, "pool_modes": ["empty", "shared", "shared", "synced"]},
    "C08": {"dry_run": False, "pool_modes": ["empty", "empty", "shared", "residue"],
            "fail_modes": ["none", "none", "none", "some"]},
}
DRIVER_ARGS = {
    "C02": {"enumerate_failures": True},
    "C04": {"scenario_filter": lambda name, scenario: len(scenario.nets.split()) >= 2, "flaky_retries": True},
    "C05": {"scenario_filter": lambda name, scenario: any(k in name.replace("nongui", "") for k in ("gui", "get", "finale")),
            "quick_cases": 1280, "multi_swarm_retries": True},
    "C08": {"scenario_filter": lambda name, scenario: len(scenario.nets.split()) >= 2},
}
