"""Asyncio event loop with a virtual clock owned by the harness (DESIGN.md 2.6 item 2)."""

import asyncio
import selectors


class Deadlock(Exception):
    """Nothing is ready, no timer is pending, yet the main future is not done."""


class StepBound(Exception):
    """The loop exceeded its deterministic iteration bound."""


class _VirtualSelector:
    def __init__(self, loop, real):
        self._loop = loop
        self._real = real

    def select(self, timeout=None):
        if timeout is None:
            raise Deadlock("event loop would block forever: all workers wait and no timer is pending")
        if timeout > 0:
            self._loop._vtime += timeout
        self._loop._iterations += 1
        if self._loop._max_iterations and self._loop._iterations > self._loop._max_iterations:
            raise StepBound(f"more than {self._loop._max_iterations} loop iterations")
        return self._real.select(0)

    def __getattr__(self, name):
        return getattr(self._real, name)


class VirtualLoop(asyncio.SelectorEventLoop):
    def __init__(self, max_iterations=0):
        super().__init__(selectors.DefaultSelector())
        self._vtime = 0.0
        self._iterations = 0
        self._max_iterations = max_iterations
        self._selector = _VirtualSelector(self, self._selector)

    def time(self):
        return self._vtime


def run(coro_factory, max_iterations=0):
    """Run ``coro_factory()`` to completion on a fresh virtual loop; returns (result, virtual time, iterations)."""
    loop = VirtualLoop(max_iterations)
    asyncio.set_event_loop(loop)
    try:
        result = loop.run_until_complete(coro_factory())
        return result, loop.time(), loop._iterations
    finally:
        try:
            pending = [t for t in asyncio.all_tasks(loop) if not t.done()]
            for task in pending:
                task.cancel()
            if pending:
                try:
                    loop.run_until_complete(asyncio.gather(*pending, return_exceptions=True))
                except BaseException:
                    pass
        finally:
            asyncio.set_event_loop(None)
            loop.close()


def selftest():
    order = []

    async def sleeper(name, delay):
        await asyncio.sleep(delay)
        order.append((name, asyncio.get_event_loop().time()))

    async def main():
        await asyncio.gather(sleeper("b", 2000.0), sleeper("a", 1000.0))

    _, now, _ = run(main)
    assert order == [("a", 1000.0), ("b", 2000.0)] and now >= 2000.0, (order, now)

    async def stuck():
        await asyncio.get_event_loop().create_future()

    try:
        run(stuck)
    except Deadlock:
        pass
    else:
        raise AssertionError("deadlock not detected")
    print("virtual loop ok")
