"""Memoisation of the third-party Cartesian parser (DESIGN.md 2.6 item 1).

avocado-i2n re-instantiates ``virttest.cartesian_config.Parser`` about ten
times per node with mostly identical inputs.  The proxy records the sequence
of parse_file/parse_string calls and evaluates each distinct sequence once.
Only third-party code is memoised; every line of avocado-i2n still runs.
"""

import copy
import os
import types

_CACHE = {}
STATS = {"hits": 0, "misses": 0, "checked": 0}
_real_module = None


def _copy_dict(d):
    return {k: (v if isinstance(v, str) else copy.deepcopy(v)) for k, v in d.items()}


class MemoParser:
    def __init__(self, *args, **kwargs):
        self._args = (args, tuple(sorted(kwargs.items())))
        self._calls = []

    def parse_file(self, filename):
        try:
            stamp = os.stat(filename).st_mtime_ns
        except OSError:
            stamp = None
        self._calls.append(("f", filename, stamp))

    def parse_string(self, text):
        self._calls.append(("s", text))

    def only_filter(self, variant):
        self._calls.append(("o", variant))

    def no_filter(self, variant):
        self._calls.append(("n", variant))

    def assign(self, key, value):
        self._calls.append(("a", key, value))

    def _real(self):
        parser = _real_module.Parser(*self._args[0], **dict(self._args[1]))
        for call in self._calls:
            if call[0] == "f":
                parser.parse_file(call[1])
            elif call[0] == "s":
                parser.parse_string(call[1])
            elif call[0] == "o":
                parser.only_filter(call[1])
            elif call[0] == "n":
                parser.no_filter(call[1])
            else:
                parser.assign(call[1], call[2])
        return parser

    def get_dicts(self, *args, **kwargs):
        if args or kwargs:
            yield from self._real().get_dicts(*args, **kwargs)
            return
        key = (self._args, tuple(self._calls))
        dicts = _CACHE.get(key)
        if dicts is None:
            STATS["misses"] += 1
            dicts = list(self._real().get_dicts())
            _CACHE[key] = dicts
        else:
            STATS["hits"] += 1
        for d in dicts:
            yield _copy_dict(d)


def install():
    """Replace the Parser seen by avocado_i2n.params_parser with the memoising proxy."""
    global _real_module
    if os.environ.get("VERIF_NO_MEMO") == "1":
        return False
    from avocado_i2n import params_parser

    if _real_module is not None:
        return True
    _real_module = params_parser.cartesian_config
    proxy = types.ModuleType("cartesian_config_memo")
    for name in dir(_real_module):
        if not name.startswith("__"):
            setattr(proxy, name, getattr(_real_module, name))
    proxy.Parser = MemoParser
    params_parser.cartesian_config = proxy
    return True


def clear():
    _CACHE.clear()


def self_check(sample_every=20, limit=25):
    """Re-evaluate a sample of cached keys without the cache; mismatch is a harness error."""
    from .core import HarnessError

    for index, (key, dicts) in enumerate(list(_CACHE.items())):
        if index % sample_every or STATS["checked"] >= limit:
            continue
        parser = MemoParser(*key[0][0], **dict(key[0][1]))
        parser._calls = list(key[1])
        fresh = list(parser._real().get_dicts())
        STATS["checked"] += 1
        if fresh != dicts:
            raise HarnessError("parser memo self-check failed: cached dictionaries differ from a fresh parse")


# ---------------------------------------------------------------------------
# faster, behaviour-identical replacement of virttest's Params.object_params
# (pure third-party code; 90% of the traversal time is spent in its python-level
# UserDict copy).  Self-checked against the original on a sample of the calls.

_PARAM_STATS = {"calls": 0, "checked": 0}


def install_fast_params():
    if os.environ.get("VERIF_NO_MEMO") == "1":
        return False
    from virttest.utils_params import Params
    from .core import HarnessError

    if getattr(Params, "_verif_fast", False):
        return True
    original = Params.object_params

    def object_params(self, obj_name):
        suffix = "_" + obj_name
        data = self.data
        new_data = dict(data)
        for key in [k for k in data if k.endswith(suffix)]:
            new_data[key.split(suffix)[0]] = data[key]
        new = self.__class__.__new__(self.__class__)
        new.__dict__.update(self.__dict__)
        new.data = new_data
        _PARAM_STATS["calls"] += 1
        calls = _PARAM_STATS["calls"]
        if calls <= 50 or calls % 5000 == 0:
            _PARAM_STATS["checked"] += 1
            reference = original(self, obj_name)
            if list(reference.data.items()) != list(new_data.items()) or type(reference) is not type(new):
                raise HarnessError("fast Params.object_params differs from virttest's implementation")
        return new

    Params.object_params = object_params
    Params._verif_fast = True
    return True
