"""Common machinery of the /verif checks: shard context, hypothesis driver,
evidence, replay files and known findings (DESIGN.md section 2)."""

from __future__ import annotations

import hashlib
import importlib
import json
import os
import shutil
import subprocess
import sys
import tempfile
import time
import traceback

VERIF = os.path.dirname(os.path.dirname(os.path.abspath(__file__)))
PYTHON = "/venv/bin/python"
KNOWN_FINDINGS = os.path.join(VERIF, "known_findings.txt")
# sensitivity runs against mutated copies write their output elsewhere (VERIF_EVIDENCE=<dir>)
EVIDENCE = os.environ.get("VERIF_EVIDENCE") or os.path.join(VERIF, "evidence")

PROPS = ["C%02d" % i for i in range(1, 21)]


class HarnessError(Exception):
    """Something is wrong with the machinery, not with the code under test."""


class Violation(Exception):
    """The property under check is violated by the code under test."""

    def __init__(self, sig, detail="", case=None):
        super().__init__(json.dumps(sig, sort_keys=True) + " :: " + str(detail)[:2000])
        self.sig = sig
        self.detail = detail
        self.case = case

    @property
    def key(self):
        return canon(self.sig)


def canon(obj):
    return json.dumps(obj, sort_keys=True, separators=(",", ":"), default=str)


def fingerprint(obj):
    return hashlib.sha1(canon(obj).encode()).hexdigest()[:14]


def derive_seed(*parts):
    h = hashlib.sha256("/".join(str(p) for p in parts).encode()).digest()
    return int.from_bytes(h[:6], "big")


def load_known_findings(prop):
    """Return ({sigkey: (id, what)}, [fixed lines]) for one property."""
    findings, fixed = {}, []
    if not os.path.exists(KNOWN_FINDINGS):
        return findings, fixed
    for line in open(KNOWN_FINDINGS):
        line = line.strip()
        if not line or line.startswith("#"):
            continue
        if line.startswith("fixed:"):
            if f"property={prop} " in line:
                fixed.append(line)
            continue
        if not line.startswith("finding:") or f"property={prop} " not in line:
            continue
        try:
            head, rest = line.split(" signature=", 1)
            sig_text, what = rest.split(" what=", 1)
            fid = head.split(" id=", 1)[1].strip()
            findings[canon(json.loads(sig_text))] = (fid, what)
        except Exception as error:  # malformed line is a harness error
            raise HarnessError(f"malformed known finding line: {line!r}: {error}")
    return findings, fixed


class Ctx:
    """Per shard bookkeeping handed to a property module."""

    MAX_SAMPLES = 4

    def __init__(self, prop, tier, seed, shard, nshards, scratch):
        self.prop = prop
        self.tier = tier
        self.seed = seed
        self.shard = shard
        self.nshards = nshards
        self.scratch = scratch
        self.evaluations = 0
        self.nontrivial = set()
        self.classes = {}
        self.samples = []
        self.violations = {}  # key -> dict(sig, detail, case, count)
        self.known, self.fixed = load_known_findings(prop)
        self.known_hits = {}
        self.excluded = 0
        self.extra = {}
        self.exhaustive_parts = []
        self.t0 = time.time()

    # --- budgets -----------------------------------------------------------
    def budget(self, quick, thorough):
        """Cases for this shard so that all shards together reach the target."""
        total = quick if self.tier == "quick" else thorough
        return max(1, -(-total // self.nshards))

    def my_slice(self, items):
        """The part of a catalogue this shard owns."""
        return [x for i, x in enumerate(items) if i % self.nshards == self.shard]

    def shard_seed(self, *extra):
        return derive_seed(self.seed, self.prop, self.shard, *extra)

    # --- recording ---------------------------------------------------------
    def case(self, case, nontrivial, labels=(), sample=None):
        self.evaluations += 1
        for label in labels:
            self.classes[label] = self.classes.get(label, 0) + 1
        if nontrivial:
            fp = fingerprint(case)
            if fp not in self.nontrivial:
                self.nontrivial.add(fp)
                if len(self.samples) < self.MAX_SAMPLES:
                    self.samples.append(sample if sample is not None else case)
        elif not self.samples and self.evaluations == 1:
            pass

    def label(self, *labels):
        for label in labels:
            self.classes[label] = self.classes.get(label, 0) + 1

    def is_known(self, violation):
        return violation.key in self.known

    def record_violation(self, violation, case=None):
        key = violation.key
        case = case if case is not None else violation.case
        if key in self.known:
            hit = self.known_hits.setdefault(key, {"count": 0, "case": case})
            hit["count"] += 1
            return False
        entry = self.violations.get(key)
        if entry is None:
            self.violations[key] = {
                "sig": violation.sig,
                "detail": str(violation.detail)[:6000],
                "case": case,
                "count": 1,
            }
            return True
        entry["count"] += 1
        # prefer smaller reproductions
        if case is not None and len(canon(case)) < len(canon(entry["case"])):
            entry["case"] = case
            entry["detail"] = str(violation.detail)[:6000]
        return False

    # --- hypothesis driver -------------------------------------------------
    def hyp(self, strategy, body, max_examples, name="main", shrink=True, max_rounds=6):
        """Run ``body(case)`` over ``strategy``; collect-then-exclude buckets.

        ``body`` raises Violation for a property violation. Any other exception
        is a harness error. Each new violation bucket is shrunk by hypothesis,
        recorded, excluded, and the search is restarted so that it cannot mask
        what lies behind it.
        """
        import hypothesis
        from hypothesis import HealthCheck, Phase, given, settings

        phases = [Phase.explicit, Phase.reuse, Phase.generate, Phase.target]
        if shrink:
            phases.append(Phase.shrink)
        excluded = set()
        for round_no in range(max_rounds):
            state = {}

            @hypothesis.seed(self.shard_seed(name, round_no))
            @settings(
                max_examples=max_examples,
                database=None,
                deadline=None,
                derandomize=False,
                report_multiple_bugs=False,
                print_blob=False,
                phases=phases,
                suppress_health_check=list(HealthCheck),
            )
            @given(strategy)
            def test(case):
                try:
                    body(case)
                except Violation as violation:
                    if violation.key in excluded or self.is_known(violation):
                        if self.is_known(violation):
                            self.record_violation(violation, violation.case or _jsonable(case))
                        self.excluded += 1
                        return
                    state["last"] = (violation, violation.case or _jsonable(case))
                    raise

            try:
                test()
            except Violation:
                violation, case = state["last"]
                self.record_violation(violation, case)
                excluded.add(violation.key)
                continue
            except (hypothesis.errors.Flaky, hypothesis.errors.FlakyStrategyDefinition) as error:
                # the oracle did see a violation but it does not reproduce on re-execution: the code under
                # test carries state from one case to the next; report it, marked unstable
                if "last" in state:
                    violation, case = state["last"]
                    violation.sig = dict(violation.sig, unstable=True)
                    self.record_violation(violation, case)
                    excluded.add(violation.key)
                    excluded.add(canon({k: v for k, v in violation.sig.items() if k != "unstable"}))
                    continue
                raise HarnessError(f"flaky generation in {self.prop}/{name} without a violation: {error}")
            break

    def machine(self, machine_cls, max_examples, steps, name="machine", shrink=True, max_rounds=4):
        """Run a RuleBasedStateMachine whose rules raise Violation."""
        import hypothesis
        from hypothesis import HealthCheck, Phase, settings
        from hypothesis.stateful import run_state_machine_as_test

        phases = [Phase.explicit, Phase.reuse, Phase.generate, Phase.target]
        if shrink:
            phases.append(Phase.shrink)
        machine_cls.excluded_keys = set()
        machine_cls.ctx = self
        for round_no in range(max_rounds):
            machine_cls.last_violation = None
            seeded = hypothesis.seed(self.shard_seed(name, round_no))(machine_cls)
            try:
                run_state_machine_as_test(
                    seeded,
                    settings=settings(
                        max_examples=max_examples,
                        stateful_step_count=steps,
                        database=None,
                        deadline=None,
                        derandomize=False,
                        report_multiple_bugs=False,
                        print_blob=False,
                        phases=phases,
                        suppress_health_check=list(HealthCheck),
                    ),
                )
            except Violation:
                violation, case = machine_cls.last_violation
                self.record_violation(violation, case)
                machine_cls.excluded_keys.add(violation.key)
                continue
            except (hypothesis.errors.Flaky, hypothesis.errors.FlakyStrategyDefinition) as error:
                if machine_cls.last_violation is not None:
                    violation, case = machine_cls.last_violation
                    violation.sig = dict(violation.sig, unstable=True)
                    self.record_violation(violation, case)
                    machine_cls.excluded_keys.add(violation.key)
                    machine_cls.excluded_keys.add(canon({k: v for k, v in violation.sig.items() if k != "unstable"}))
                    continue
                raise HarnessError(f"flaky generation in {self.prop}/{name} without a violation: {error}")
            break

    # --- output ------------------------------------------------------------
    def dump(self):
        return {
            "shard": self.shard,
            "evaluations": self.evaluations,
            "nontrivial": sorted(self.nontrivial),
            "classes": self.classes,
            "samples": self.samples,
            "violations": list(self.violations.values()),
            "known_hits": [
                {"key": k, "count": v["count"], "case": v["case"]}
                for k, v in self.known_hits.items()
            ],
            "excluded": self.excluded,
            "extra": self.extra,
            "exhaustive_parts": self.exhaustive_parts,
            "wall_s": time.time() - self.t0,
        }


def _jsonable(obj):
    try:
        json.dumps(obj)
        return obj
    except TypeError:
        return json.loads(json.dumps(obj, default=repr))


def load_module(prop):
    return importlib.import_module("props." + prop.lower())


# ---------------------------------------------------------------------------
# shard side


def run_shard(prop, tier, seed, shard, nshards, out_path):
    from . import env

    scratch = env.isolate()
    try:
        module = load_module(prop)
        ctx = Ctx(prop, tier, seed, shard, nshards, scratch)
        status = "ok"
        error = ""
        try:
            module.run(ctx)
        except Violation as violation:
            # a violation escaping the driver: record it, it is still a result
            ctx.record_violation(violation)
        except HarnessError as harness_error:
            status, error = "harness_error", "".join(traceback.format_exception(harness_error))
        except Exception as other:  # noqa: any unexpected exception is a harness error
            status, error = "harness_error", "".join(traceback.format_exception(other))
        data = ctx.dump()
        data["status"] = status
        data["error"] = error
        with open(out_path, "w") as handle:
            json.dump(data, handle, default=repr)
    finally:
        env.cleanup(scratch)
    return 0 if status == "ok" else 2


# ---------------------------------------------------------------------------
# parent side


def write_replay(prop, entry, index):
    directory = os.path.join(EVIDENCE, "replays", prop)
    os.makedirs(directory, exist_ok=True)
    name = f"{prop}-{fingerprint(entry['sig'])}-{index}.json"
    path = os.path.join(directory, name)
    with open(path, "w") as handle:
        json.dump(
            {"property": prop, "sig": entry["sig"], "detail": entry["detail"], "case": entry["case"]},
            handle,
            indent=1,
            default=repr,
        )
    return path


def run_check(prop, tier, seed, nshards):
    module = load_module(prop)
    t0 = time.time()
    shard_dir = os.path.join(EVIDENCE, ".shards")
    os.makedirs(shard_dir, exist_ok=True)
    nshards = min(nshards, getattr(module, "MAX_SHARDS", nshards))
    env_vars = dict(os.environ)
    env_vars["PYTHONHASHSEED"] = "0"
    env_vars["VERIF_SEED"] = str(seed)
    env_vars.setdefault("PYTHONDONTWRITEBYTECODE", "1")
    procs = []
    for shard in range(nshards):
        out = os.path.join(shard_dir, f"{prop}.{shard}.json")
        if os.path.exists(out):
            os.unlink(out)
        log = open(os.path.join(shard_dir, f"{prop}.{shard}.log"), "w")
        cmd = [PYTHON, os.path.join(VERIF, "check"), prop, "--tier", tier,
               "--shard", str(shard), "--nshards", str(nshards), "--out", out]
        procs.append((shard, out, log, subprocess.Popen(cmd, env=env_vars, stdout=log, stderr=log, cwd=VERIF)))
    shards, errors = [], []
    for shard, out, log, proc in procs:
        code = proc.wait()
        log.close()
        if not os.path.exists(out):
            tail = open(log.name).read()[-3000:]
            errors.append(f"shard {shard} exit {code} without output:\n{tail}")
            continue
        data = json.load(open(out))
        if data.get("status") != "ok":
            errors.append(f"shard {shard}: {data.get('error')}")
        shards.append(data)
    known, fixed = load_known_findings(prop)

    evaluations = sum(s["evaluations"] for s in shards)
    nontrivial = set()
    classes, samples, extra = {}, [], {}
    violations, known_hits = {}, {}
    excluded = 0
    exhaustive_parts = []
    for s in shards:
        nontrivial.update(s["nontrivial"])
        for k, v in s["classes"].items():
            classes[k] = classes.get(k, 0) + v
        for k, v in s["extra"].items():
            if k.startswith("max_") and isinstance(v, (int, float)):
                extra[k] = max(extra.get(k, 0), v)
            elif isinstance(v, (int, float)) and not isinstance(v, bool):
                extra[k] = extra.get(k, 0) + v
            else:
                extra.setdefault(k, v)
        excluded += s["excluded"]
        for part in s["exhaustive_parts"]:
            if part not in exhaustive_parts:
                exhaustive_parts.append(part)
        for entry in s["violations"]:
            key = canon(entry["sig"])
            if key in violations:
                violations[key]["count"] += entry["count"]
                if len(canon(entry["case"])) < len(canon(violations[key]["case"])):
                    violations[key].update(case=entry["case"], detail=entry["detail"])
            else:
                violations[key] = dict(entry)
        for hit in s["known_hits"]:
            entry = known_hits.setdefault(hit["key"], {"count": 0, "case": hit["case"]})
            entry["count"] += hit["count"]
    # round-robin samples over shards
    pools = [list(s["samples"]) for s in shards]
    while len(samples) < 5 and any(pools):
        for pool in pools:
            if pool and len(samples) < 5:
                samples.append(pool.pop(0))

    if not samples:
        samples = [v["case"] for v in violations.values()][:3]
        evaluations = max(evaluations, sum(v["count"] for v in violations.values()))
    replay_paths = []
    shutil.rmtree(os.path.join(EVIDENCE, "replays", prop), ignore_errors=True)
    for index, (key, entry) in enumerate(sorted(violations.items())):
        replay_paths.append(write_replay(prop, entry, index))
    for key, hit in known_hits.items():
        if key in known and hit.get("case") is not None:
            write_replay(prop, {"sig": json.loads(key), "detail": "known finding " + known[key][0], "case": hit["case"]},
                         "known-" + known[key][0])

    wall = time.time() - t0
    level = getattr(module, "LEVEL", "exploration")
    evidence = {
        "property_id": prop,
        "tier": tier,
        "seed": seed,
        "level": level,
        "coverage": {
            "evaluations": evaluations,
            "distinct_nontrivial": len(nontrivial),
            "rule": getattr(module, "RULE", ""),
            "samples": _truncate(samples),
            "classes": dict(sorted(classes.items())),
            "exhaustive": bool(getattr(module, "EXHAUSTIVE", False)),
            "exhaustive_parts": exhaustive_parts,
            "shards": len(shards),
            "excluded_by_construction": excluded,
            "known_findings_reproduced": {known[k][0]: v["count"] for k, v in known_hits.items() if k in known},
            "violation_signatures": [v["sig"] for v in violations.values()],
            "extra": extra,
        },
        "assumptions": list(getattr(module, "ASSUMPTIONS", [])),
        "wall_s": round(wall, 2),
        "violations": len(violations),
    }
    if errors:
        evidence["coverage"]["harness_errors"] = [e[-1500:] for e in errors]
    path = os.path.join(EVIDENCE, f"{prop}.json")
    with open(path, "w") as handle:
        json.dump(evidence, handle, indent=1, default=repr)
        handle.write("\n")

    for key, hit in known_hits.items():
        if key in known:
            fid, what = known[key]
            print(f"KNOWN-FINDING: property={prop} {fid} {what} (reproduced {hit['count']}x)")
    print(
        f"[{prop}] tier={tier} seed={seed} shards={len(shards)} evaluations={evaluations} "
        f"distinct_nontrivial={len(nontrivial)} violations={len(violations)} wall={wall:.1f}s"
    )
    if errors:
        for error in errors:
            print("HARNESS-ERROR:", error[-3000:], file=sys.stderr)
    if violations:
        for path_, entry in zip(replay_paths, [v for _, v in sorted(violations.items())]):
            print(f"VIOLATION property={prop} replay={os.path.relpath(path_, VERIF)}")
            print("  signature:", canon(entry["sig"]))
            print("  detail:", str(entry["detail"])[:800].replace("\n", "\n    "))
        return 1
    if errors:
        return 2
    if evaluations < 1 or len(nontrivial) < 2:
        print(f"HARNESS-ERROR: vacuous run (evaluations={evaluations}, nontrivial={len(nontrivial)})", file=sys.stderr)
        return 2
    return 0


def _truncate(obj, limit=3000):
    out = []
    for sample in obj:
        text = canon(sample)
        if len(text) > limit:
            out.append({"truncated": text[:limit] + "..."})
        else:
            out.append(sample)
    return out


def run_replay(prop, path):
    from . import env

    scratch = env.isolate()
    try:
        module = load_module(prop)
        data = json.load(open(path))
        ctx = Ctx(prop, "quick", 0, 0, 1, scratch)
        case = data["case"]
        print(f"[{prop}] replaying {path}")
        print("case:", canon(case)[:4000])
        try:
            found = module.replay(ctx, case) or []
        except Violation as violation:
            found = [violation]
        known = ctx.known
        code = 0
        for violation in found:
            print("violated:", canon(violation.sig))
            print("detail:", str(violation.detail)[:4000])
            if violation.key in known:
                print(f"KNOWN-FINDING: property={prop} {known[violation.key][0]} {known[violation.key][1]}")
            else:
                code = 1
        if code:
            print(f"VIOLATION property={prop} replay={path}")
        else:
            print("no (unlisted) violation on replay")
        return code
    finally:
        env.cleanup(scratch)
