"""G2 - synthetic test suites whose setup DAG is drawn at random and therefore known (DESIGN.md 3.5).

Only groups.cfg (generated states below `customize`, generated test groups) and sets.cfg are regenerated in a
scratch copy of the shipped suite; `original`, `internal.stateless/stateful/manual`, `customize`, nets.cfg,
vms.cfg and the guest configs stay verbatim because the graph code relies on their conventions.
"""

from __future__ import annotations

import os
import re
import shutil

from hypothesis import strategies as st

VMS = ["vm1", "vm2", "vm3"]

# ---------------------------------------------------------------------------
# the DAG


@st.composite
def dags(draw):
    """states: image states below customize (vm generic); groups: tests over 1-3 vms, possibly setting states."""
    nstates = draw(st.integers(1, 4))
    states = []
    for index in range(nstates):
        parent = draw(st.sampled_from(["customize"] + [s["name"] for s in states]))
        states.append({"name": f"st{index + 1}", "parent": parent})
    ngroups = draw(st.integers(1, 4))
    groups = []
    for index in range(ngroups):
        name = f"grp{index + 1}"
        vms = draw(st.sampled_from([["vm1"], ["vm1"], ["vm2"], ["vm1", "vm2"], ["vm1", "vm2"], ["vm1", "vm2", "vm3"]]))
        # producers: groups that set a state; one level of cloning only (a cloned group is not used as a producer)
        producers = [g for g in groups if g["setter"] and set(g["vms"]) <= set(vms)
                     and not any(x[0] == "group" and x[2] is None for x in g["gets"].values())]
        gets = {}
        for vm in vms:
            if vm == "vm3":
                continue  # permanent vm with an externally given state, as in the shipped suite
            choices = [("state", s["name"]) for s in states] + [("state", "customize")]
            gets[vm] = list(draw(st.sampled_from(choices)))
        multi = None
        if producers and draw(st.integers(0, 3)) > 0:
            producer = draw(st.sampled_from(producers))
            vm = producer["setter"]
            if len(producer["subs"]) > 1 and draw(st.integers(0, 2)) > 0:
                gets[vm] = ["group", producer["name"], None]      # all subvariants: cloning
                multi = vm
            else:
                sub = draw(st.sampled_from(producer["subs"]))
                gets[vm] = ["group", producer["name"], sub["name"]]
        nsubs = draw(st.sampled_from([1, 2, 2, 3]))
        # distinctive variant names: the clone naming replaces the first textual occurrence of the last test variant
        # in the whole name, so a variant like "a" would be "found" inside "leaves" (noted in DESIGN.md 5.4)
        subs = [{"name": f"sub{'xyz'[i]}{index + 1}"} for i in range(nsubs)]
        setter = None
        candidates = [vm for vm in vms if vm != "vm3"]
        if candidates and draw(st.integers(0, 2)) > 0:
            # a multi-producer dependant may only set a state on the vm it is cloned through (tutorial_get pattern)
            setter = multi or draw(st.sampled_from(candidates))
        removable = draw(st.booleans()) if setter else False
        groups.append({"name": name, "vms": vms, "gets": gets, "subs": subs, "setter": setter, "removable": removable})
    return {"states": states, "groups": groups}


def state_of(group, sub):
    return f"{group['name']}set.{sub['name']}"


# ---------------------------------------------------------------------------
# writing the suite


def write_suite(dag, repo, dest):
    """Create dest/{configs,controls,...} from the shipped suite with regenerated groups.cfg and sets.cfg."""
    source = os.path.join(repo, "tp_folder")
    os.makedirs(dest, exist_ok=True)
    for sub in ("configs", "controls"):
        shutil.copytree(os.path.join(source, sub), os.path.join(dest, sub), dirs_exist_ok=True)
    for sub in ("tools", "utils", "tests", "data"):
        os.makedirs(os.path.join(dest, sub), exist_ok=True)
    groups_path = os.path.join(dest, "configs", "groups.cfg")
    text = open(os.path.join(source, "configs", "groups.cfg")).read()
    # keep everything up to and including the customize variant, drop the shipped automated states and test groups
    start = text.index("                    - on_customize:")
    manual = text.index("            - manual:")
    end = text.index("    - quicktest:")
    generated_states = ""
    for state in dag["states"]:
        generated_states += (
            f"                    - {state['name']}:\n"
            f"                        get_images = {state['parent']}\n"
            f"                        get_state_images = {state['parent']}\n"
            f"                        set_state_images = {state['name']}\n"
            f"                        type = shared_customize_vm\n"
        )
    generated_groups = ""
    for group in dag["groups"]:
        generated_groups += f"    - {group['name']}:\n        vms = {' '.join(group['vms'])}\n        type = tutorial_step_1\n"
        single = len(group["vms"]) == 1
        for vm, get in group["gets"].items():
            suffix = "" if single else f"_{vm}"
            if get[0] == "state":
                generated_groups += f"        get_images{suffix} = {get[1]}\n        get_state_images{suffix} = {get[1]}\n"
            elif get[2] is not None:
                producer = next(g for g in dag["groups"] if g["name"] == get[1])
                sub = next(s for s in producer["subs"] if s["name"] == get[2])
                generated_groups += (f"        get_images{suffix} = {get[1]}.{get[2]}\n"
                                     f"        get_state_images{suffix} = {state_of(producer, sub)}\n")
            else:
                generated_groups += f"        get_images{suffix} = {get[1]}\n"
        if "vm3" in group["vms"]:
            generated_groups += "        get_state_vms_vm3 = ready\n"
        generated_groups += "        variants:\n"
        for sub in group["subs"]:
            generated_groups += f"            - {sub['name']}:\n                file_contents = {group['name']}{sub['name']}\n"
            if group["setter"]:
                suffix = "" if single else f"_{group['setter']}"
                multi = any(g[0] == "group" and g[2] is None for g in group["gets"].values())
                value = f"{group['name']}set" if multi else state_of(group, sub)
                generated_groups += f"                set_state_images{suffix} = {value}\n"
                if group["removable"]:
                    generated_groups += f"                unset_mode_images{suffix} = fi\n"
    with open(groups_path, "w") as handle:
        handle.write(text[:start] + generated_states + text[manual:end] + generated_groups)
    sets = (
        "# generated test sets\ninclude groups.cfg\n\nvariants:\n"
        "    - @all:\n"
        "    - nonleaves:\n        only internal, original\n"
        "    - leaves:\n        no internal, original\n"
        "    - normal:\n        no internal, original\n"
        f"    - minimal:\n        only {dag['groups'][0]['name']}\n"
    )
    with open(os.path.join(dest, "configs", "sets.cfg"), "w") as handle:
        handle.write(sets)
    base_path = os.path.join(dest, "configs", "groups-base.cfg")
    base = open(base_path).read()
    base = re.sub(r"main_restrictions = .*", "main_restrictions = all nonleaves leaves normal minimal", base)
    with open(base_path, "w") as handle:
        handle.write(base)
    return dest


def use_suite(dest):
    """Point avocado-i2n at the suite: the documented setting plus fresh ~/avocado_overwrite_*.cfg files."""
    from avocado.core.settings import settings
    from avocado_i2n import params_parser  # registers the option  # noqa

    settings.update_option("i2n.common.suite_path", dest)
    home = os.environ["HOME"]
    for name in os.listdir(home):
        if name.startswith("avocado_overwrite_") and name.endswith(".cfg"):
            os.unlink(os.path.join(home, name))


# ---------------------------------------------------------------------------
# the expected graph of the selection `leaves` (all groups), per worker


def expected_graph(dag):
    """Nodes {(test part, vms tuple)} and edges {(child, parent, vm)} for one worker, from the DAG alone."""
    nodes, edges = set(), set()
    states = {s["name"]: s["parent"] for s in dag["states"]}

    def state_chain(vm, state):
        """Ensure the setup chain of an image state of a vm exists; returns its node."""
        if state == "install":
            node = ("original.unattended_install", (vm,))
            nodes.add(node)
            return node
        if state == "customize":
            node = ("internal.automated.customize", (vm,))
            parent = state_chain(vm, "install")
        else:
            node = (f"internal.automated.{state}", (vm,))
            parent = state_chain(vm, states[state])
        nodes.add(node)
        edges.add((node, parent, vm))
        return node

    produced = {}   # group name -> list of (node, sub name) final runnable nodes
    for group in dag["groups"]:
        variants = [((f"{group['name']}.{sub['name']}", tuple(group["vms"])), sub["name"]) for sub in group["subs"]]
        multi = [(vm, get) for vm, get in group["gets"].items() if get[0] == "group" and get[2] is None]
        finals = []
        for node, sub_name in variants:
            parents = {}
            for vm, get in group["gets"].items():
                if get[0] == "state":
                    parents[vm] = [state_chain(vm, get[1])]
                elif get[2] is not None:
                    parents[vm] = [n for n, s in produced[get[1]] if s.split(".")[0] == get[2]]
                else:
                    parents[vm] = [n for n, s in produced[get[1]]]
            if multi:
                vm = multi[0][0]
                producer = next(g for g in dag["groups"] if g["name"] == multi[0][1][1])
                for parent, parent_sub in [(n, s) for n, s in produced[producer["name"]]]:
                    branch = f"{producer['name']}set.{parent_sub}"
                    clone = (f"{node[0]}.{branch}", node[1])
                    nodes.add(clone)
                    for other_vm, plist in parents.items():
                        for p in (plist if other_vm != vm else [parent]):
                            edges.add((clone, p, other_vm))
                    finals.append((clone, f"{sub_name}.{parent_sub}"))
            else:
                nodes.add(node)
                for vm, plist in parents.items():
                    for p in plist:
                        edges.add((node, p, vm))
                finals.append((node, sub_name))
        produced[group["name"]] = finals
    return nodes, edges
