"""Setup self-test: imports, origin of the code under test, virtual loop, memo."""

import sys


def main():
    from . import env
    from .core import HarnessError

    scratch = env.isolate()
    try:
        import hypothesis  # noqa

        origin = env.check_origin()
        print("avocado_i2n from", origin, "hypothesis", hypothesis.__version__)
        try:
            from . import vloop

            vloop.selftest()
        except ImportError:
            pass
        print("selftest ok")
        return 0
    except HarnessError as error:
        print("HARNESS-ERROR:", error, file=sys.stderr)
        return 2
    finally:
        env.cleanup(scratch)
