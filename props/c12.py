"""C12 - state operations follow the documented policy table and a store model
(DESIGN.md section 4 "C12" and Appendix A).

An in-memory state backend (one class per object level nets/vms/images, in two
flavours: plain ``StateBackend`` subclass and ``SourcedStateBackend`` subclass) is
registered in ``ss.BACKENDS``; it keeps ``object -> {root, states}`` and logs every
call it receives.

Part 1 (exhaustive): every row of the single-call policy table.
Part 2 (hypothesis stateful): call sequences over 1-3 vms x 1-2 images; after each
call the outcome, the acting backend calls, the set of objects that saw any call and
the resulting store are compared with a plain set-of-names model that applies the
documented action per object in iteration order.
"""

import copy
import itertools

from hypothesis import strategies as st
from hypothesis.stateful import RuleBasedStateMachine, rule, initialize, precondition

from vlib.core import Violation, HarnessError

LEVEL = "exploration"
RULE = (
    "Part 1: one case = one row of the single-call policy table (op x 26 op modes x check modes x state "
    "present/absent/root keyword x root present/absent x object type x backend flavour, plus a filter table over "
    "skip_types x readonly image), run on a net with two vms and bystander objects; every row is distinct by "
    "construction. Part 2: one case = an initial store over 1-3 vms x 1-2 images plus a sequence of <=30 "
    "check/get/set/unset/push/pop calls with generated per-object states, modes, check modes, skip_types, key "
    "spellings (global / per type / per vm / per object) and decoy keys of the other operations; non-trivial when "
    "some call raised (abort or invalid policy) while addressing >=2 objects, or a push that stored a state was "
    "later followed by a pop that removed it. Distinct = canonical JSON of the case."
)
ASSUMPTIONS = [
    "the backend is an in-memory substitute: a root flag and a set of state names per object, independent of each "
    "other (unset_root does not drop the states), so all four present/absent combinations are reachable",
    "the env is a stand-in whose get_vm() returns None for unknown names like virttest's Env; vm.destroy() clears "
    "the vm's root flag and is treated as equivalent to unset_root of that vm",
    "virttest's Params.object_params/objects resolve suffixed keys as documented there (trusted third party)",
    "parameters use the full chain 'nets vms images' with one net as all callers do; skip_types is only generated "
    "for check/get/set/unset (push/pop re-enter with a one-level chain for which no caller defines skip_types)",
    "decoy keys are only keys of the other two operations among get/set/unset (as real test nodes carry them), "
    "never check_* keys (no caller combines them with get/set/unset parameters)",
    "push is documented as 'identical to the set operation' and pop as get followed by unset, so the readonly-image "
    "filter of get/set/unset is expected of push/pop as well (own signature: readonly-image-used)",
    "a failing sequence is reduced by a deterministic minimiser of the harness instead of hypothesis' shrinker",
    "only acting calls (get/set/unset/get_root/set_root/unset_root/destroy) are compared in order; read-only "
    "queries (show/check_root) only count for the 'object never touched' oracle",
]

#: reserved root state keywords as documented in states/setup.py
ROOTS = ["root", "0root", "boot", "0boot"]
STATES = ["a", "b", "c"]
LEVELS = ["nets", "vms", "images"]
TYPES = {"nets": "nets", "vms": "nets/vms", "images": "nets/vms/images"}
DEFAULT_MODE = {"get": "ra", "set": "ff", "unset": "fi", "push": "af"}
DEFAULT_CHECK_MODE = "rf"
FILTERED_OPS = ("check", "get", "set", "unset")
LETTERS = "arifx"
ALL_MODES = [a + b for a in LETTERS for b in LETTERS]
ACTING = ("get", "set", "unset", "get_root", "set_root", "unset_root")

_WORLD = [None]


def load():
    from vlib import env

    env.check_origin()
    env.quiet_logging()
    from avocado_i2n.states import setup as ss
    from avocado_i2n.states import pool
    from avocado.core import exceptions
    from virttest.utils_params import Params

    backends = make_backends(ss, pool)
    return {"ss": ss, "pool": pool, "exceptions": exceptions, "Params": Params, "backends": backends}


# ---------------------------------------------------------------------------
# the in-memory world: store, call log, env and vm stand-ins


class FakeVM:
    def __init__(self, world, name):
        self._world = world
        self.name = name

    def destroy(self, gracefully=True, **kwargs):
        key = "net1/" + self.name
        self._world.log.append(("destroy", key, None))
        if key in self._world.store:
            self._world.store[key]["root"] = False

    def __repr__(self):
        return f"<vm {self.name}>"


class FakeEnv:
    def __init__(self, world):
        self._world = world

    def get_vm(self, name):
        # like virttest.utils_env.Env.get_vm: unknown names give None
        return self._world.vms.get(name)

    def __repr__(self):
        return "<env>"


class World:
    def __init__(self, topo, init):
        self.store = {k: {"root": bool(v["root"]), "states": set(v["states"])} for k, v in init.items()}
        self.log = []
        self.anomalies = []
        self.vms = {vm: FakeVM(self, vm) for vm, _ in topo["vms"]}
        self.env = FakeEnv(self)

    def snapshot(self):
        return {k: {"root": v["root"], "states": sorted(v["states"])} for k, v in sorted(self.store.items())}


def make_backends(ss, pool):
    """Three object levels x two flavours of the logging in-memory backend."""

    class Mem:
        level = None

        @classmethod
        def _locate(cls, params, obj, method):
            world = _WORLD[0]
            if world is None:
                raise HarnessError("in-memory backend used outside of a case")
            otype = params.get("object_type", "")
            if otype.split("/")[-1] != cls.level:
                world.anomalies.append(("backend-of-other-level",
                                        f"{method} of the {cls.level} backend called for object type {otype!r}"))
            names = [params.get(level, "") for level in LEVELS[:LEVELS.index(cls.level) + 1]]
            key = "/".join(names)
            if key not in world.store:
                world.anomalies.append(("unknown-object", f"{method} called for {key!r} which is no single known object"))
                return world, key, None
            expected = world.env if cls.level == "nets" else world.vms.get(params.get("vms"))
            if obj is not expected:
                world.anomalies.append(("wrong-state-object", f"{method} for {key} received {obj!r} instead of {expected!r}"))
            return world, key, world.store[key]

        @classmethod
        def _state(cls, world, params, do, key):
            state = params.get(f"{do}_state")
            if not state:
                world.anomalies.append(("state-parameter-missing", f"{do} for {key} without {do}_state"))
            return state

        @classmethod
        def show(cls, params, object=None):
            world, key, entry = cls._locate(params, object, "show")
            world.log.append(("show", key, None))
            return sorted(entry["states"]) if entry else []

        @classmethod
        def check_root(cls, params, object=None):
            world, key, entry = cls._locate(params, object, "check_root")
            world.log.append(("check_root", key, None))
            return bool(entry and entry["root"])

        @classmethod
        def get_root(cls, params, object=None):
            world, key, entry = cls._locate(params, object, "get_root")
            world.log.append(("get_root", key, None))

        @classmethod
        def set_root(cls, params, object=None):
            world, key, entry = cls._locate(params, object, "set_root")
            world.log.append(("set_root", key, None))
            if entry:
                entry["root"] = True

        @classmethod
        def unset_root(cls, params, object=None):
            world, key, entry = cls._locate(params, object, "unset_root")
            world.log.append(("unset_root", key, None))
            if entry:
                entry["root"] = False

        @classmethod
        def get(cls, params, object=None):
            world, key, entry = cls._locate(params, object, "get")
            world.log.append(("get", key, cls._state(world, params, "get", key)))

        @classmethod
        def set(cls, params, object=None):
            world, key, entry = cls._locate(params, object, "set")
            state = cls._state(world, params, "set", key)
            world.log.append(("set", key, state))
            if entry and state:
                entry["states"].add(state)

        @classmethod
        def unset(cls, params, object=None):
            world, key, entry = cls._locate(params, object, "unset")
            state = cls._state(world, params, "unset", key)
            world.log.append(("unset", key, state))
            if entry and state:
                entry["states"].discard(state)

    backends = {}
    for level in LEVELS:
        backends[f"c12_{level}_plain"] = type(f"Plain_{level}", (Mem, ss.StateBackend), {"level": level})
        backends[f"c12_{level}_sourced"] = type(f"Sourced_{level}", (Mem, pool.SourcedStateBackend), {"level": level})
    return backends


# ---------------------------------------------------------------------------
# topology, parameter rendering


def iteration(topo):
    """Objects in the documented iteration order: images of a vm, the vm, ..., the net."""
    for vm, images in topo["vms"]:
        for image in images:
            yield f"net1/{vm}/{image}", "nets/vms/images"
        yield f"net1/{vm}", "nets/vms"
    yield "net1", "nets"


def level_of(key):
    return LEVELS[key.count("/")]


def suffix_of(key):
    parts = key.split("/")
    if len(parts) == 3:
        return f"{parts[2]}_{parts[1]}"
    return parts[-1]


def base_params(case):
    topo = case["topo"]
    params = {
        "nets": "net1",
        "vms": " ".join(vm for vm, _ in topo["vms"]),
        "images": "image1",
        "states_chain": "nets vms images",
        "pool_scope": "own",
    }
    for vm, images in topo["vms"]:
        if images != ["image1"] or topo.get("explicit_images"):
            params[f"images_{vm}"] = " ".join(images)
    for level in LEVELS:
        params[f"states_{level}"] = f"c12_{level}_{case['flavours'][level]}"
    for key in case["readonly"]:
        params[f"image_readonly_{suffix_of(key)}"] = "yes"
    return params


def render(topo, base, values, forms):
    """Spell ``base`` for the objects with a value, choosing more general spellings where ``forms`` allows.

    Precedence of the spellings (Params.object_params): ``base`` < ``base_<type>`` < ``base_images_<vm>`` <
    ``base_<type>_<object>``.
    """
    out = {}
    objects = [key for key, _ in iteration(topo)]
    default = None
    if forms.get("global") and all(values.get(o) is not None for o in objects):
        default = values[objects[0]]
        out[base] = default
    for level in LEVELS:
        members = [o for o in objects if level_of(o) == level]
        tdefault = default
        if forms.get(level) and all(values.get(o) is not None for o in members):
            if values[members[0]] != tdefault:
                tdefault = values[members[0]]
                out[f"{base}_{level}"] = tdefault
        groups = [members]
        if level == "images":
            groups = [[o for o in members if o.split("/")[1] == vm] for vm, _ in topo["vms"]]
        for group in groups:
            gdefault = tdefault
            if level == "images" and forms.get("vmimages") and all(values.get(o) is not None for o in group):
                if values[group[0]] != gdefault:
                    gdefault = values[group[0]]
                    out[f"{base}_images_{group[0].split('/')[1]}"] = gdefault
            for o in group:
                if values.get(o) is not None and values[o] != gdefault:
                    out[f"{base}_{level}_{suffix_of(o)}"] = values[o]
    return out


def render_call(topo, op, objs, skip_types="", forms=None, decoys=None):
    forms = forms or {}
    params = {}
    params.update(render(topo, f"{op}_state", {k: v["state"] for k, v in objs.items()}, forms.get("state", {})))
    if op != "check":
        params.update(render(topo, f"{op}_mode", {k: v["mode"] for k, v in objs.items()}, forms.get("mode", {})))
    params.update(render(topo, "check_mode", {k: v["check_mode"] for k, v in objs.items()}, forms.get("check_mode", {})))
    if skip_types:
        params["skip_types"] = skip_types
    for key, value in (decoys or {}).items():
        params[key] = value
    return {"op": op, "skip_types": skip_types, "objs": objs, "decoys": dict(decoys or {}), "params": params}


def verify_rendering(impl, case, call):
    """Harness self-check: the rendered keys resolve to the per-object specification."""
    params = impl["Params"](dict(base_params(case), **call["params"]))
    op = call["op"]
    for key, typ in iteration(case["topo"]):
        resolved = params
        for name in key.split("/"):
            resolved = resolved.object_params(name)
        resolved = resolved.object_params(level_of(key))
        spec = call["objs"][key]
        names = [(f"{op}_state", spec["state"]), ("check_mode", spec["check_mode"])]
        if op != "check":
            names.append((f"{op}_mode", spec["mode"]))
        for name, wanted in names:
            if (resolved.get(name) or None) != wanted:
                raise HarnessError(f"rendering of {name} for {key}: {resolved.get(name)!r} instead of {wanted!r} in {call}")
        if resolved.get(f"states") != f"c12_{level_of(key)}_{case['flavours'][level_of(key)]}":
            raise HarnessError(f"backend of {key} resolves to {resolved.get('states')}")


# ---------------------------------------------------------------------------
# the model: the documented action per object (README policy table, docstrings, Appendix A)


class ModelRaise(Exception):
    def __init__(self, name):
        super().__init__(name)
        self.name = name


def m_check_phase(entry, key, state, check_mode, actions):
    """The root prerequisite and the presence of one state of one object."""
    present_action, absent_action = check_mode[0], check_mode[1]
    if not entry["root"]:
        if absent_action == "f":
            actions.append(("set_root", key, None))
            entry["root"] = True
        elif absent_action == "r":
            return False
        else:
            raise ModelRaise("TestError")
    elif present_action == "f":
        actions.append(("unset_root", key, None))
        actions.append(("set_root", key, None))
    else:
        actions.append(("get_root", key, None))
    return entry["root"] if state in ROOTS else state in entry["states"]


def m_get(entry, key, state, mode, check_mode, actions):
    exists = m_check_phase(entry, key, state, check_mode, actions)
    letter = mode[0] if exists else mode[1]
    if letter == "a":
        raise ModelRaise("TestAbortError")
    if letter == "i":
        return
    if not (exists and letter == "r"):
        raise ModelRaise("TestError")
    actions.append(("get_root", key, None) if state in ROOTS else ("get", key, state))


def m_set(entry, key, state, mode, check_mode, actions, sourced):
    exists = m_check_phase(entry, key, state, check_mode, actions)
    letter = mode[0] if exists else mode[1]
    if letter == "a":
        raise ModelRaise("TestAbortError")
    if exists:
        if letter == "r":
            return
        if letter != "f":
            raise ModelRaise("TestError")
        if state in ROOTS:
            actions.append(("unset_root", key, None))
            entry["root"] = False
        elif not sourced:
            actions.append(("unset", key, state))
            entry["states"].discard(state)
    else:
        if letter != "f":
            raise ModelRaise("TestError")
        if state not in ROOTS and not entry["root"]:
            raise ModelRaise("TestError")
    if state in ROOTS:
        actions.append(("set_root", key, None))
        entry["root"] = True
    else:
        actions.append(("set", key, state))
        entry["states"].add(state)


def m_unset(entry, key, state, mode, check_mode, actions):
    exists = m_check_phase(entry, key, state, check_mode, actions)
    letter = mode[0] if exists else mode[1]
    if exists:
        if letter == "r":
            return
        if letter != "f":
            raise ModelRaise("TestError")
    else:
        if letter == "a":
            raise ModelRaise("TestAbortError")
        if letter == "i":
            return
        raise ModelRaise("TestError")
    if state in ROOTS:
        actions.append(("unset_root", key, None))
        entry["root"] = False
    else:
        actions.append(("unset", key, state))
        entry["states"].discard(state)


def model_apply(store, case, call):
    """Apply one call to the model store; returns (outcome, acting calls, objects addressed)."""
    op = call["op"]
    actions, touched = [], []
    outcome = ["return", True if op == "check" else None]
    skipped = call["skip_types"].split() if op in FILTERED_OPS else []
    try:
        for key, typ in iteration(case["topo"]):
            spec = call["objs"][key]
            if typ in skipped:
                continue
            if typ == "nets/vms/images" and key in case["readonly"]:
                continue
            state = spec["state"]
            if not state:
                continue
            if op in ("push", "pop") and state in ROOTS:
                continue
            touched.append(key)
            entry = store[key]
            check_mode = spec["check_mode"] or DEFAULT_CHECK_MODE
            sourced = case["flavours"][level_of(key)] == "sourced"
            if op == "check":
                if not m_check_phase(entry, key, state, check_mode, actions):
                    outcome = ["return", False]
                    break
            elif op == "get":
                m_get(entry, key, state, spec["mode"] or "ra", check_mode, actions)
            elif op == "set":
                m_set(entry, key, state, spec["mode"] or "ff", check_mode, actions, sourced)
            elif op == "unset":
                m_unset(entry, key, state, spec["mode"] or "fi", check_mode, actions)
            elif op == "push":
                m_set(entry, key, state, spec["mode"] or "af", check_mode, actions, sourced)
            elif op == "pop":
                m_get(entry, key, state, spec["mode"] or "ra", check_mode, actions)
                m_unset(entry, key, state, spec["mode"] or "fa", check_mode, actions)
            else:
                raise HarnessError(f"unknown operation {op}")
    except ModelRaise as raised:
        outcome = ["raise", raised.name]
    return outcome, actions, touched


# ---------------------------------------------------------------------------
# running one call against the code under test and comparing


def run_step(impl, case, world, model, call, index):
    """Returns (violation or None, info)."""
    ss, exceptions = impl["ss"], impl["exceptions"]
    op = call["op"]
    params = impl["Params"](dict(base_params(case), **call["params"]))
    expected_outcome, expected_actions, touched = model_apply(model, case, call)
    world.log.clear()
    world.anomalies.clear()
    function = getattr(ss, f"{op}_states")
    saved_backends, saved_world = ss.BACKENDS, _WORLD[0]
    ss.BACKENDS = dict(impl["backends"])
    _WORLD[0] = world
    unexpected = None
    try:
        try:
            result = function(params, world.env)
            outcome = ["return", result if op == "check" else None]
        except exceptions.TestAbortError:
            outcome = ["raise", "TestAbortError"]
        except exceptions.TestError:
            outcome = ["raise", "TestError"]
        except HarnessError:
            raise
        except Exception as error:  # anything else from the code under test is a violation of its own kind
            outcome = ["raise", type(error).__name__]
            unexpected = error
    finally:
        ss.BACKENDS = saved_backends
        _WORLD[0] = saved_world

    log = list(world.log)
    got_actions = [("unset_root" if m == "destroy" else m, k, s) for m, k, s in log if m in ACTING or m == "destroy"]
    info = {"outcome": outcome, "expected_outcome": expected_outcome, "actions": got_actions,
            "touched": touched, "expected_actions": expected_actions}
    where = f"step {index} {op} skip_types={call['skip_types']!r} objs=" + str(
        {k: v for k, v in call["objs"].items() if v["state"]})

    def violation(sig, text):
        return Violation(dict(sig, op=op), f"{where}\n{text}\nparams={call['params']}", case)

    if world.anomalies:
        kind, text = world.anomalies[0]
        return violation({"oracle": "backend-call-malformed", "kind": kind}, text), info
    # a readonly image must not be used by any operation ("cannot use any state from readonly image - skipping");
    # push is documented as identical to set, pop as get followed by unset
    meddled = [entry for entry in log if entry[1] in case["readonly"]]
    if meddled:
        return violation({"oracle": "readonly-image-used"},
                         f"readonly image received {meddled[:6]}; outcome {outcome}, documented {expected_outcome}"), info
    if unexpected is not None:
        return violation({"oracle": "unexpected-exception", "error": type(unexpected).__name__},
                         f"raised {unexpected!r}, documented outcome {expected_outcome}"), info
    # first divergence of the acting calls
    for position, (want, got) in enumerate(itertools.zip_longest(expected_actions, got_actions)):
        if want != got:
            key = (got or want)[1]
            sig = {"oracle": "actions-differ", "expected": want[0] if want else None, "got": got[0] if got else None}
            if want and got and want[0] == got[0]:
                sig["same"] = "other-object" if want[1] != got[1] else "other-state"
            return violation(
                sig,
                f"acting call #{position}: documented {want}, performed {got}\n"
                f"documented: {expected_actions}\nperformed:  {got_actions}\noutcome {outcome}, documented {expected_outcome}"), info
    if outcome != expected_outcome:
        return violation({"oracle": "outcome-differs", "expected": str(expected_outcome[1]), "got": str(outcome[1])},
                         f"outcome {outcome}, documented {expected_outcome}; acting calls {got_actions}"), info
    strangers = sorted({k for _, k, _ in log} - set(touched))
    if strangers:
        return violation({"oracle": "unaddressed-object-called"},
                         f"objects {strangers} received calls "
                         f"{[entry for entry in log if entry[1] in strangers][:6]} although only {touched} are addressed"), info
    got_store = world.snapshot()
    want_store = {k: {"root": v["root"], "states": sorted(v["states"])} for k, v in sorted(model.items())}
    if got_store != want_store:
        differing = [k for k in want_store if want_store[k] != got_store.get(k)]
        return violation({"oracle": "store-differs"},
                         f"store after the call differs for {differing}: "
                         f"{ {k: got_store.get(k) for k in differing} } instead of { {k: want_store[k] for k in differing} }"), info
    return None, info


def fresh(case):
    world = World(case["topo"], case["init"])
    model = {k: {"root": bool(v["root"]), "states": set(v["states"])} for k, v in case["init"].items()}
    return world, model


def run_sequence(impl, case, verify=False, skip=()):
    """Run all steps of a case; returns (first violation whose key is not in ``skip`` or None, list of step infos).

    After a skipped violation the model is carried on from the real store, as the state machine does."""
    world, model = fresh(case)
    infos = []
    for index, call in enumerate(case["steps"]):
        if verify:
            verify_rendering(impl, case, call)
        found, info = run_step(impl, case, world, model, call, index)
        infos.append(info)
        if found is not None:
            if found.key not in skip:
                return found, infos
            model.clear()
            model.update({k: {"root": v["root"], "states": set(v["states"])} for k, v in world.store.items()})
    return None, infos


def _same_failure(impl, case, key, skip=()):
    found, _ = run_sequence(impl, case, skip=skip)
    if found is not None and found.key == key:
        return found
    return None


def minimise(impl, case, violation, skip=()):
    """Cheap deterministic reduction of a failing sequence (hypothesis' own shrinking of the machine costs minutes):
    drop steps, spell parameters per object, un-address objects, drop decoys, drop unused vms."""
    key = violation.key
    best = copy.deepcopy(case)
    best.pop("row", None)
    found = _same_failure(impl, best, key, skip)
    if found is None:
        return case, violation
    best_found = found

    def attempt(candidate):
        nonlocal best, best_found
        try:
            for call in candidate["steps"]:
                verify_rendering(impl, candidate, call)
        except HarnessError:
            return False
        found = _same_failure(impl, candidate, key, skip)
        if found is None:
            return False
        best, best_found = candidate, found
        return True

    for _ in range(3):
        size = len(str(best))
        # drop steps, last first (the failing one is the last executed)
        index = len(best["steps"]) - 1
        while index >= 0:
            candidate = copy.deepcopy(best)
            del candidate["steps"][index]
            if candidate["steps"]:
                attempt(candidate)
            index -= 1
        # plain spelling, no decoys, fewer addressed objects, default modes
        for index in range(len(best["steps"])):
            call = best["steps"][index]
            variants = [render_call(best["topo"], call["op"], call["objs"], call["skip_types"], None, call["decoys"]),
                        render_call(best["topo"], call["op"], call["objs"], call["skip_types"], None, None),
                        render_call(best["topo"], call["op"], call["objs"], "", None, None)]
            for variant in variants:
                candidate = copy.deepcopy(best)
                candidate["steps"][index] = variant
                attempt(candidate)
            for obj in list(best["steps"][index]["objs"]):
                for field in ("state", "mode", "check_mode"):
                    call = best["steps"][index]
                    if call["objs"][obj][field] is None:
                        continue
                    objs = copy.deepcopy(call["objs"])
                    objs[obj][field] = None
                    candidate = copy.deepcopy(best)
                    candidate["steps"][index] = render_call(best["topo"], call["op"], objs, call["skip_types"], None, call["decoys"])
                    attempt(candidate)
        # drop vms, second images and readonly flags
        for vm, images in list(best["topo"]["vms"]):
            if len(best["topo"]["vms"]) > 1:
                gone = lambda k, vm=vm: k.split("/")[1:2] == [vm]
                candidate = reduce_world(best, gone, [[v, i] for v, i in best["topo"]["vms"] if v != vm])
                attempt(candidate)
        for vm, images in list(best["topo"]["vms"]):
            if len(images) > 1:
                gone = lambda k, vm=vm, image=images[-1]: k.split("/")[1:] == [vm, image]
                candidate = reduce_world(best, gone, [[v, i[:-1] if v == vm else i] for v, i in best["topo"]["vms"]])
                attempt(candidate)
        for key_ in list(best["readonly"]):
            candidate = copy.deepcopy(best)
            candidate["readonly"].remove(key_)
            attempt(candidate)
        if len(str(best)) >= size:
            break
    return best, best_found


def reduce_world(case, gone, vms):
    candidate = copy.deepcopy(case)
    candidate["topo"] = dict(case["topo"], vms=vms)
    candidate["init"] = {k: v for k, v in case["init"].items() if not gone(k)}
    candidate["readonly"] = [k for k in case["readonly"] if not gone(k)]
    candidate["steps"] = [
        render_call(candidate["topo"], call["op"], {k: v for k, v in call["objs"].items() if not gone(k)},
                    call["skip_types"], None, None)
        for call in case["steps"]]
    return candidate


# ---------------------------------------------------------------------------
# part 1: the policy table

TABLE_TOPO = {"vms": [["vm1", ["image1", "image2"]], ["vm2", ["image1"]]]}
TABLE_TARGET = {"images": "net1/vm1/image1", "vms": "net1/vm1", "nets": "net1"}
TABLE_CHECK_MODES = [None, "rr", "rf", "fr", "ff", "ri", "xf"]
TABLE_SKIPS = ["", "own", "others", "nets/vms/images nets", "nets/vms"]


def table_rows():
    rows = []
    kinds = ["present", "absent", "rootkw"]
    index = 0
    for op in ("get", "set", "unset", "push", "pop"):
        for mode, check_mode, kind, root, level, flavour in itertools.product(
                [None] + ALL_MODES, TABLE_CHECK_MODES, kinds, (True, False), LEVELS, ("plain", "sourced")):
            rows.append({"part": "core", "op": op, "mode": mode, "check_mode": check_mode, "kind": kind, "root": root,
                         "level": level, "flavour": flavour, "skip": "", "readonly": False, "n": index})
            index += 1
    for check_mode, kind, root, level, flavour in itertools.product(
            [None] + ALL_MODES, kinds, (True, False), LEVELS, ("plain", "sourced")):
        rows.append({"part": "core", "op": "check", "mode": None, "check_mode": check_mode, "kind": kind, "root": root,
                     "level": level, "flavour": flavour, "skip": "", "readonly": False, "n": index})
        index += 1
    for op in ("check", "get", "set", "unset", "push", "pop"):
        skips = TABLE_SKIPS if op in FILTERED_OPS else [""]
        for skip, readonly, level, kind, root, mode, flavour in itertools.product(
                skips, (False, True), LEVELS, kinds[:2], (True, False), (None, "ff", "aa"), ("plain", "sourced")):
            if op == "check" and mode == "aa":
                continue
            rows.append({"part": "filter", "op": op, "mode": None if op == "check" else mode,
                         "check_mode": mode if op == "check" else None, "kind": kind, "root": root, "level": level,
                         "flavour": flavour, "skip": skip, "readonly": readonly, "n": index})
            index += 1
    return rows


def table_case(row):
    topo = TABLE_TOPO
    target = TABLE_TARGET[row["level"]]
    if row["kind"] == "rootkw":
        state = ROOTS[row["n"] % len(ROOTS)]
    else:
        state = "a"
    init = {}
    for key, _ in iteration(topo):
        init[key] = {"root": True, "states": ["a", "z"]}
    init[target] = {"root": row["root"], "states": ["z"] if row["kind"] == "absent" else ["a", "z"]}
    own = TYPES[row["level"]]
    skip = row["skip"]
    if skip == "own":
        skip = own
    elif skip == "others":
        skip = " ".join(t for t in TYPES.values() if t != own)
    objs = {key: {"state": None, "mode": None, "check_mode": None} for key, _ in iteration(topo)}
    objs[target] = {"state": state, "mode": row["mode"], "check_mode": row["check_mode"]}
    case = {
        "topo": topo,
        "flavours": {level: row["flavour"] for level in LEVELS},
        # the readonly flag sits on the target image, or on a bystander image when the target is no image
        "readonly": ["net1/vm1/image1"] if row["readonly"] else [],
        "init": init,
        "row": row,
    }
    case["steps"] = [render_call(topo, row["op"], objs, skip_types=skip)]
    return case


# ---------------------------------------------------------------------------
# part 2: generated worlds and calls


@st.composite
def worlds(draw):
    nvms = draw(st.integers(1, 3))
    names = draw(st.permutations(["vm1", "vm2", "vm3"]))[:nvms]
    topo = {"vms": [[vm, draw(st.sampled_from([["image1"], ["image1", "image2"]]))] for vm in names],
            "explicit_images": draw(st.booleans())}
    flavours = {level: draw(st.sampled_from(["plain", "sourced"])) for level in LEVELS}
    readonly, init = [], {}
    for key, typ in iteration(topo):
        if typ == "nets/vms/images" and draw(st.integers(0, 7)) == 0:
            readonly.append(key)
        init[key] = {"root": draw(st.integers(0, 4)) > 0,
                     "states": sorted(draw(st.sets(st.sampled_from(STATES), max_size=3)))}
    return {"topo": topo, "flavours": flavours, "readonly": readonly, "init": init, "steps": []}


VALID_MODES = {
    "get": ["ra", "ri", "ii", "ia", "aa", "ai", "ri"],
    "set": ["ff", "rf", "af", "fa", "ra", "aa", "rf", "ff"],
    "unset": ["fi", "ri", "fa", "ra", "fi"],
    "push": ["af", "ff", "rf", "aa"],
    "pop": ["ra", "ri", "fa", "fi", "rf", "ff", "ii"],
}
SKIP_TYPES = ["", "", "", "nets", "nets/vms", "nets/vms/images", "nets/vms/images nets", "nets nets/vms",
              "nets/vms nets/vms/images", "nets nets/vms nets/vms/images"]


MODE_STRATEGY = {
    op: st.one_of(st.none(), st.sampled_from(valid), st.sampled_from(valid), st.sampled_from(ALL_MODES))
    for op, valid in VALID_MODES.items()
}
MODE_STRATEGY["check"] = st.none()
CHECK_MODE_STRATEGY = st.one_of(st.none(), st.none(), st.sampled_from(["rf", "rr", "ff", "fr", "rf", "rr"]),
                                st.sampled_from(ALL_MODES))
FORM_NAMES = ["global", "nets", "vms", "images", "vmimages"]
OP_STRATEGY = st.sampled_from(["check", "get", "get", "set", "set", "set", "unset", "unset", "push", "push", "pop", "pop"])
#: per object: (addressed when <= density, which state, own mode when 0, own check mode when 0)
OBJECT_STRATEGY = st.tuples(st.integers(1, 4), st.integers(0, 9), st.integers(0, 5), st.integers(0, 7))
HEAD_STRATEGY = st.tuples(OP_STRATEGY, st.sampled_from([1, 2, 2, 3, 4]), st.sampled_from(STATES), CHECK_MODE_STRATEGY,
                          st.sampled_from(SKIP_TYPES), st.integers(0, 2 ** 15 - 1))
DECOY_STRATEGY = st.tuples(st.integers(0, 2), st.integers(0, 4), st.sampled_from(STATES + ["d", "root"]),
                           st.sampled_from([None, "ff", "aa", "ri", "xx"]))
_CALLS = {}


def calls(topo):
    """Strategy of one call for a topology (cached: building strategies dominates otherwise)."""
    key = str(topo)
    if key not in _CALLS:
        _CALLS[key] = _calls(topo)
    return _CALLS[key]


def _calls(topo):
    objects = [key for key, _ in iteration(topo)]

    @st.composite
    def build(draw):
        op, density, common_state, common_check, skip_types, bits = draw(HEAD_STRATEGY)
        common_mode = draw(MODE_STRATEGY[op])
        objs = {}
        for number, key in enumerate(objects):
            address, which, own_mode, own_check = draw(OBJECT_STRATEGY)
            state = None
            if address <= density:
                state = ([common_state] * 4 + STATES + ROOTS[:2] + [ROOTS[2 + number % 2]])[which]
            mode = draw(MODE_STRATEGY[op]) if own_mode == 0 else common_mode
            check_mode = draw(CHECK_MODE_STRATEGY) if own_check == 0 else common_check
            objs[key] = {"state": state, "mode": mode, "check_mode": check_mode}
        if op not in FILTERED_OPS:
            skip_types = ""
        forms = {}
        for index, name in enumerate(("state", "mode", "check_mode")):
            forms[name] = {form: bool(bits >> (index * 5 + position) & 1) for position, form in enumerate(FORM_NAMES)}
        decoys = {}
        if op in ("get", "set", "unset") and draw(st.booleans()):
            for other in ("get", "set", "unset"):
                if other == op:
                    continue
                use, spelling, value, mode = draw(DECOY_STRATEGY)
                if use == 0:
                    continue
                spelling = ["", "_images", "_vms", "_nets", "_images_" + suffix_of(objects[0])][spelling]
                decoys[f"{other}_state{spelling}"] = value
                if mode:
                    decoys[f"{other}_mode"] = mode
        return render_call(topo, op, objs, skip_types=skip_types, forms=forms, decoys=decoys)

    return build()


def step_labels(call, info):
    labels = ["op:" + call["op"], "outcome:" + str(info["outcome"][1])]
    addressed = sum(1 for v in call["objs"].values() if v["state"])
    labels.append("addressed:" + ("0" if not addressed else "1" if addressed == 1 else ">=2"))
    return labels


def sequence_nontrivial(case, infos):
    raised_multi = False
    pushed, pair = set(), False
    for call, info in zip(case["steps"], infos):
        addressed = sum(1 for v in call["objs"].values() if v["state"])
        if info["outcome"][0] == "raise" and addressed >= 2:
            raised_multi = True
        if call["op"] == "push":
            pushed.update((k, s) for m, k, s in info["actions"] if m == "set")
        if call["op"] == "pop" and any(m == "unset" and (k, s) in pushed for m, k, s in info["actions"]):
            pair = True
    return raised_multi, pair


def make_machine(impl, ctx):
    class StateOperations(RuleBasedStateMachine):
        excluded_keys = set()
        last_violation = None

        def __init__(self):
            super().__init__()
            self.case = None
            self.world = None
            self.model = None
            self.infos = []

        def fail(self, violation):
            case = copy.deepcopy(self.case)
            violation.case = case
            if violation.key in type(self).excluded_keys or ctx.is_known(violation):
                if ctx.is_known(violation):
                    ctx.record_violation(violation, case)
                ctx.excluded += 1
                # carry on from the real store so that one divergence does not cascade
                self.model = {k: {"root": v["root"], "states": set(v["states"])} for k, v in self.world.store.items()}
                return
            case, violation = minimise(impl, case, violation, set(type(self).excluded_keys) | set(ctx.known))
            violation.case = case
            type(self).last_violation = (violation, case)
            raise violation

        @initialize(setup=worlds())
        def start(self, setup):
            self.case = setup
            self.world, self.model = fresh(setup)

        @rule(data=st.data())
        def call(self, data):
            self.perform(data.draw(calls(self.case["topo"])))

        def perform(self, call):
            verify_rendering(impl, self.case, call)
            self.case["steps"].append(call)
            found, info = run_step(impl, self.case, self.world, self.model, call, len(self.case["steps"]) - 1)
            self.infos.append(info)
            for label in step_labels(call, info):
                ctx.label("B:" + label)
            if found is not None:
                self.fail(found)

        @precondition(lambda self: self.case is not None and any(
            call["op"] == "push" and any(m == "set" for m, _, _ in info["actions"])
            for call, info in zip(self.case["steps"], self.infos)))
        @rule(data=st.data())
        def pop_what_was_pushed(self, data):
            pushes = [call for call, info in zip(self.case["steps"], self.infos)
                      if call["op"] == "push" and any(m == "set" for m, _, _ in info["actions"])]
            push = pushes[-1]
            mode = data.draw(MODE_STRATEGY["pop"])
            objs = {key: {"state": spec["state"], "mode": mode, "check_mode": spec["check_mode"]}
                    for key, spec in push["objs"].items()}
            self.perform(render_call(self.case["topo"], "pop", objs))

        def teardown(self):
            if self.case is None or not self.case["steps"]:
                return
            raised_multi, pair = sequence_nontrivial(self.case, self.infos)
            labels = ["B:sequence"]
            if raised_multi:
                labels.append("B:raise-with>=2-objects")
            if pair:
                labels.append("B:push-pop-pair")
            labels.append(f"B:vms={len(self.case['topo']['vms'])}")
            ctx.case(self.case, raised_multi or pair, labels)

    return StateOperations


# ---------------------------------------------------------------------------
# regression inputs


def _regression(vms, init, steps, flavours=None, readonly=()):
    topo = {"vms": vms}
    full_init = {key: {"root": True, "states": []} for key, _ in iteration(topo)}
    for key, value in init.items():
        full_init[key] = value
    case = {"topo": topo, "flavours": flavours or {level: "plain" for level in LEVELS},
            "readonly": list(readonly), "init": full_init, "steps": []}
    for op, addressed, skip_types in steps:
        objs = {key: {"state": None, "mode": None, "check_mode": None} for key, _ in iteration(topo)}
        for key, (state, mode, check_mode) in addressed.items():
            objs[key] = {"state": state, "mode": mode, "check_mode": check_mode}
        case["steps"].append(render_call(topo, op, objs, skip_types=skip_types))
    return case


REGRESSIONS = [
    # the selftest's multi object get: two images retrieved, the third vm's missing state aborts
    _regression([["vm1", ["image1", "image2"]], ["vm2", ["image1"]], ["vm3", ["image1"]]],
                {"net1/vm1/image1": {"root": True, "states": ["a"]}, "net1/vm1/image2": {"root": True, "states": ["b"]}},
                [("get", {"net1/vm1/image1": ("a", "ra", "rr"), "net1/vm1/image2": ("b", "ra", "rr"),
                          "net1/vm2/image1": ("c", "ii", "rr"), "net1/vm3": ("c", "ra", "rr")}, "nets")]),
    # overwrite of a present state: plain backend removes it first, sourced backend preserves it
    _regression([["vm1", ["image1"]]], {"net1/vm1/image1": {"root": True, "states": ["a"]}},
                [("set", {"net1/vm1/image1": ("a", "ff", None)}, "")]),
    _regression([["vm1", ["image1"]]], {"net1/vm1/image1": {"root": True, "states": ["a"]}},
                [("set", {"net1/vm1/image1": ("a", "ff", None)}, "")],
                flavours={"nets": "plain", "vms": "plain", "images": "sourced"}),
    # push and pop pair, a second push aborts, root keywords are not pushed
    _regression([["vm1", ["image1"]], ["vm2", ["image1", "image2"]]], {},
                [("push", {"net1/vm1": ("a", None, None), "net1/vm2/image2": ("a", None, None), "net1": ("root", None, None)}, ""),
                 ("push", {"net1/vm2/image1": ("b", None, None), "net1/vm1": ("a", None, None)}, ""),
                 ("pop", {"net1/vm1": ("a", None, None), "net1/vm2/image2": ("a", None, None)}, ""),
                 ("pop", {"net1/vm1": ("a", None, None)}, "")]),
    # forced root of a present vm during a direct check, missing root reported without creating it
    _regression([["vm1", ["image1"]]], {"net1/vm1/image1": {"root": False, "states": ["a"]}},
                [("check", {"net1/vm1": ("boot", None, "ff")}, ""),
                 ("check", {"net1/vm1/image1": ("a", None, "rr"), "net1/vm1": ("a", None, "rr")}, ""),
                 ("set", {"net1/vm1/image1": ("a", "ff", "rr")}, "nets/vms")]),
    # a readonly image is left alone by set and unset
    _regression([["vm1", ["image1", "image2"]]], {"net1/vm1/image2": {"root": True, "states": ["a"]}},
                [("set", {"net1/vm1/image1": ("a", None, None), "net1/vm1/image2": ("b", None, None)}, ""),
                 ("unset", {"net1/vm1/image1": ("a", None, None), "net1/vm1/image2": ("a", None, None)}, "")],
                readonly=["net1/vm1/image1"]),
]


# ---------------------------------------------------------------------------


def run(ctx):
    impl = load()

    for case in (REGRESSIONS if ctx.shard == 0 else []):
        found, infos = run_sequence(impl, case, verify=True)
        ctx.case(case, True, ["R:regression"])
        if found is not None:
            ctx.record_violation(found, case)

    rows = table_rows()
    ctx.exhaustive_parts.append(
        f"single-call policy table: {len(rows)} rows (op x mode x check_mode x presence x root x type x flavour, "
        "plus skip_types x readonly filter rows)")
    for row in ctx.my_slice(rows):
        case = table_case(row)
        found, infos = run_sequence(impl, case, verify=True)
        labels = ["A:" + row["part"], "A:op:" + row["op"], "A:outcome:" + str(infos[-1]["outcome"][1])]
        ctx.case(case, True, labels)
        if found is not None:
            ctx.record_violation(found, case)

    # hypothesis' shrinking of the machine is switched off: a failing sequence is reduced by minimise() instead
    ctx.machine(make_machine(impl, ctx), ctx.budget(3000, 120000), steps=30, name="sequences", shrink=False)


def replay(ctx, case):
    impl = load()
    found_all, skip = [], set()
    while True:
        found, infos = run_sequence(impl, case, verify=True, skip=skip)
        if found is None:
            return found_all
        found_all.append(found)
        skip.add(found.key)
