"""C17 - a vm state exists exactly when all of the vm's images have it."""

from hypothesis import strategies as st

from vlib.core import Violation

LEVEL = "exploration"
RULE = (
    "case = (backend in {qcow2vt, ramfile, qcow2-off}, 1..3 images each with an ordered list of (state name, vm-state "
    "size) snapshots rendered in `qemu-img snapshot -l` layout with generated column padding, memory files for "
    "ramfile); non-trivial when the vm has >=2 images whose state sets differ or a listing mixes zero and non-zero "
    "vm-state sizes. Distinct = canonical JSON of the case."
)
ASSUMPTIONS = [
    "QemuImg (qemu-img snapshot -l) and os.listdir/os.stat are substituted as in the selftests",
    "listings follow qemu-img's column layout (id, tag, vm size, date, vm clock[, icount]) with arbitrary padding",
    "the ramfile backend's per-image backend is a stub answering show() per image",
]

import math


def qemu_size(val):
    """qemu's size_to_str(): what `qemu-img snapshot -l` prints in the VM SIZE column."""
    suffixes = ["", "Ki", "Mi", "Gi", "Ti", "Pi", "Ei"]
    _, exponent = math.frexp(val / (1000.0 / 1024.0))
    index = max((exponent - 1) // 10, 0)
    return "%0.3g %sB" % (val / float(1 << (index * 10)), suffixes[index])


# byte counts around every formatting edge: below 1000 B, 0.977 of a unit, three digits, rounding up to 1e+03
BYTES_ON = [1, 10, 512, 999, 1000, 1023, 1024, 1536, 10240, 123 * 1024, 999 * 1024, 1023999, 1000 * 1024, 1023 * 1024,
            1024 ** 2, int(1.5 * 1024 ** 2), 256 * 1024 ** 2, 1000 * 1024 ** 2, 1023 * 1024 ** 2, 1024 ** 3,
            int(1.07 * 1024 ** 3), 1000 * 1024 ** 3, 3 * 1024 ** 4]
SIZES_ON = sorted({qemu_size(b) for b in BYTES_ON}) + ["2e+03 KiB"]
NAMES = ["install", "customize", "on_customize", "launch", "a", "b", "c", "x.y", "with-dash", "s10", "connect.a1", "0root_like"]


def load():
    from vlib import env

    env.check_origin()
    env.quiet_logging()
    from avocado_i2n.states import qcow2, ramfile
    from virttest.utils_params import Params

    return qcow2, ramfile, Params


snapshot = st.tuples(st.sampled_from(NAMES), st.one_of(st.just("0 B"), st.sampled_from(SIZES_ON)),
                     st.integers(1, 6), st.integers(1, 8))


@st.composite
def cases(draw):
    backend = draw(st.sampled_from(["qcow2vt", "qcow2vt", "ramfile", "ramfile", "qcow2off"]))
    nimages = draw(st.integers(1, 3))
    universe = draw(st.lists(st.sampled_from(NAMES), min_size=0, max_size=5, unique=True))
    images = []
    for _ in range(nimages):
        if backend == "ramfile":
            images.append(draw(st.lists(st.sampled_from(universe or ["a"]), max_size=5, unique=True)) if universe else [])
        else:
            # bias: start from the shared universe and perturb, so that intersections are often non-empty
            snaps = []
            for name in draw(st.permutations(universe)):
                if draw(st.integers(0, 4)) > 0:
                    size = draw(st.one_of(st.just("0 B"), st.sampled_from(SIZES_ON), st.sampled_from(SIZES_ON)))
                    snaps.append([name, size, draw(st.integers(1, 6)), draw(st.integers(1, 8))])
            extra = draw(st.lists(snapshot, max_size=2, unique_by=lambda s: s[0]))
            for name, size, pad1, pad2 in extra:
                if name not in [s[0] for s in snaps]:
                    snaps.append([name, size, pad1, pad2])
            images.append(snaps)
    case = {"backend": backend, "images": images, "header": draw(st.booleans()), "icount": draw(st.booleans())}
    if backend == "ramfile":
        mem = draw(st.lists(st.sampled_from(universe + ["stray"]), max_size=6, unique=True))
        case["memory"] = mem
        case["other_files"] = draw(st.lists(st.sampled_from(["lock", "a.qcow2", "b.state.bak", "image1"]), max_size=2, unique=True))
    return case


def render(snaps, header, icount):
    out = ""
    if header:
        out += "Snapshot list:\nID        TAG               VM SIZE                DATE     VM CLOCK" + ("     ICOUNT" if icount else "") + "\n"
    for index, (name, size, pad1, pad2) in enumerate(snaps):
        out += f"{index + 1}{' ' * pad1}{name}{' ' * pad2}{size} 2024-0{index % 9 + 1}-11 12:13:14   00:00:0{index % 9}.123" + ("             --" if icount else "") + "\n"
    return out


def check(case, impl):
    qcow2, ramfile, Params = impl
    names = [f"image{i + 1}" for i in range(len(case["images"]))]
    params = Params({"vms": "vm1", "images": " ".join(names), "images_base_dir": "/images/vm1",
                     "object_id": "vm1-abc.def", "swarm_pool": "/pool", "image_format": "qcow2"})
    for name in names:
        params[f"image_name_{name}"] = name
    backend = case["backend"]

    if backend in ("qcow2vt", "qcow2off"):
        listings = {n: render(s, case["header"], case["icount"]) for n, s in zip(names, case["images"])}

        class FakeQemuImg:
            def __init__(self, qparams, root_dir, tag):
                self.tag = tag

            def snapshot_list(self, force_share=False):
                return listings[self.tag]

        original = qcow2.QemuImg
        qcow2.QemuImg = FakeQemuImg
        try:
            if backend == "qcow2vt":
                expected = None
                for snaps in case["images"]:
                    on = {s[0] for s in snaps if s[1] != "0 B"}
                    expected = on if expected is None else expected & on
                try:
                    got = qcow2.QCOW2VTBackend.show(params.copy(), None)
                except Exception as error:
                    raise Violation({"oracle": "vm-show-raises", "backend": "qcow2vt", "error": type(error).__name__},
                                    f"QCOW2VTBackend.show raised {error!r} for {len(names)} images", case)
                if sorted(set(got)) != sorted(expected) or len(list(got)) != len(set(got)):
                    kind = "spurious" if set(got) - expected else "missing"
                    raise Violation({"oracle": "vm-states-not-intersection", "backend": "qcow2vt", "kind": kind},
                                    f"show gave {sorted(got)}, images have {[sorted(s[0] for s in i if s[1] != '0 B') for i in case['images']]}", case)
            # per image on/off classification (both backends)
            for name, snaps in zip(names, case["images"]):
                image_params = params.object_params(name)
                image_params["images"] = name
                for klass, want_on in ((qcow2.QCOW2Backend, False), (qcow2.QCOW2VTBackend, True)):
                    if klass is qcow2.QCOW2VTBackend:
                        # a vm with this single image, through the public vm-level listing
                        single = params.copy()
                        single["images"] = name
                        try:
                            got = list(klass.show(single, None))
                        except Exception as error:
                            raise Violation({"oracle": "image-show-raises", "error": type(error).__name__}, repr(error), case)
                    else:
                        got = list(klass.show(image_params.copy(), None))
                    expected_list = sorted(s[0] for s in snaps if (s[1] != "0 B") == want_on)
                    if sorted(got) != expected_list:
                        raise Violation({"oracle": "on-off-classification", "want": "on" if want_on else "off"},
                                        f"{klass.__name__} listing of {name}: {sorted(got)} expected {expected_list}\n{listings[name]}", case)
        finally:
            qcow2.QemuImg = original
        differ = len({tuple(sorted(s[0] for s in i if s[1] != "0 B")) for i in case["images"]}) > 1
        mixed = any(len({s[1] == "0 B" for s in i}) > 1 for i in case["images"])
        return (len(names) >= 2 and differ) or mixed

    # ramfile
    per_image = dict(zip(names, case["images"]))

    class ImageBackend:
        @classmethod
        def show(cls, image_params, object=None):
            return list(per_image[image_params["images"]])

    class FakeStat:
        st_size = 4096

    class FakeOS:
        class path:
            import os as _os
            join = staticmethod(_os.path.join)
            exists = staticmethod(lambda p: True)
            dirname = staticmethod(_os.path.dirname)

        @staticmethod
        def listdir(path):
            if path != "/pool/vm1-abc.def":
                raise FileNotFoundError(path)
            return [m + ".state" for m in case["memory"]] + list(case["other_files"])

        @staticmethod
        def stat(path):
            return FakeStat()

    original_os, original_backend = ramfile.os, ramfile.RamfileBackend.image_state_backend
    ramfile.os = FakeOS
    ramfile.RamfileBackend.image_state_backend = ImageBackend
    try:
        expected = set(case["memory"])
        for states in case["images"]:
            expected &= set(states)
        try:
            got = ramfile.RamfileBackend._show(params.copy(), None)
        except Exception as error:
            raise Violation({"oracle": "vm-show-raises", "backend": "ramfile", "error": type(error).__name__},
                            f"RamfileBackend._show raised {error!r} for {len(names)} images", case)
        if sorted(set(got)) != sorted(expected) or len(list(got)) != len(set(got)):
            kind = "spurious" if set(got) - expected else "missing"
            raise Violation({"oracle": "vm-states-not-intersection", "backend": "ramfile", "kind": kind},
                            f"_show gave {sorted(got)}, images {case['images']}, memory {case['memory']}", case)
    finally:
        ramfile.os = original_os
        ramfile.RamfileBackend.image_state_backend = original_backend
    return len(names) >= 2 and len({tuple(sorted(i)) for i in case["images"]}) > 1


REGRESSIONS = [
    {"backend": "qcow2vt", "images": [[["a", "1 GiB", 9, 5], ["b", "1 GiB", 9, 5]], [["b", "1 GiB", 9, 5], ["c", "1 GiB", 9, 5]]], "header": True, "icount": False},
    {"backend": "qcow2vt", "images": [[], [["b", "1 GiB", 9, 5], ["c", "1 GiB", 9, 5]]], "header": True, "icount": True},
    {"backend": "ramfile", "images": [["a", "b"], ["b", "c"]], "memory": ["a", "b", "c"], "other_files": [], "header": False, "icount": False},
    {"backend": "ramfile", "images": [[], ["b", "c"]], "memory": ["b"], "other_files": ["lock"], "header": False, "icount": False},
    {"backend": "qcow2off", "images": [[["a", "0 B", 9, 5], ["s10", "10 B", 1, 1], ["b", "2e+03 KiB", 2, 1]]], "header": True, "icount": False},
]


def run(ctx):
    impl = load()

    def body(case):
        nontrivial = check(case, impl)
        ctx.case(case, nontrivial, [case["backend"], f"images={len(case['images'])}"] + (["nontrivial"] if nontrivial else []))

    for case in (REGRESSIONS if ctx.shard == 0 else []):
        try:
            body(case)
        except Violation as violation:
            ctx.record_violation(violation, case)
    ctx.hyp(cases(), body, ctx.budget(4000, 300000), name="show")


def replay(ctx, case):
    try:
        check(case, load())
    except Violation as violation:
        return [violation]
    return []
