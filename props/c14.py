"""C14 - pool transfers are exact, never destroy data, and exclude each other
(DESIGN.md section 4, C14).

Part 1 (hypothesis, in process): op sequences of TransferOps on real files
below ctx.scratch against a byte-level reference.
Part 2 (hypothesis-drawn rounds, 2..8 forked children): critical sections on
the same pool file never overlap; the outcome is the sequential one.
Part 3 (enumerated fault table, forked holder/waiter): the lock is released
on exception and on SIGKILL; a holder outliving the timeout makes the waiter
raise RuntimeError without touching anything.
"""

import contextlib
import hashlib
import json
import os
import select
import shutil
import signal
import stat
import tempfile
import time
import traceback

from hypothesis import strategies as st

from vlib.core import Violation, HarnessError

LEVEL = "fault_enumeration"
RULE = (
    "seq: case = initial cache state (absent/file/link to pool/link elsewhere/dangling link), initial pool state "
    "(absent/file), contents given as (pattern, size 0..3 MiB, byte flips) related to one base content (equal, flip "
    "before/at/after the 1 MiB hash block, other pattern, resized), and 1..5 ops of download/upload/delete in local or "
    "link mode (direct or through the dispatcher) interleaved with rewrites of either side; non-trivial when some op "
    "ran with both sides present or with a link in the cache. "
    "fuzz: case = one whole round drawn by hypothesis (1..2 pool files with initial content, 2..8 children, each with "
    "a list of ops with content index and three sleep values, retry interval); non-trivial when >=2 children "
    "modified the same pool file and at least one lock retry was observed. "
    "fault: case = one row of the enumerated table (fault kind x holder op x injection point x next op / timeout); "
    "every row is non-trivial, reaching the injection point is asserted. Distinct = canonical JSON of the case."
)
ASSUMPTIONS = [
    "the module references os/shutil/crypto/time inside avocado_i2n.states.pool are replaced by pass-through shims "
    "that log enter/exit of shutil.copy, os.unlink, os.symlink and crypto.hash_file, sleep the generated delays, "
    "and inject the enumerated faults; fcntl and open() are the real ones",
    "CLOCK_MONOTONIC (time.monotonic) is system-wide on Linux, so timestamps of different processes are comparable",
    "in most fuzz rounds the lock retry interval time.sleep(1) is scaled down (10..50 ms, retry count unchanged); "
    "one round in five and the whole fault table keep the real 1 s",
    "the scratch directory is on a local filesystem with working POSIX record locks",
    "local-mode ops are only issued while the cache path is absent or a regular file; remote (ssh) transfers are "
    "not covered",
    "'match' in the skip rule means byte-identical files; a copy skipped for files that differ anywhere is reported",
    "a fault row whose planned call is never made by the code under test has no subject; it is counted under the "
    "class fault:no-subject(point-not-reached) and not as non-trivial (0 such rows on the pinned tree)",
    "guard timeouts (30 s) only convert a hang into a harness error (exit 2), never into a violation",
]

MIB = 1048576
GUARD = 30.0
REL = ""  # pool files sit directly in the pool directory: every extra directory costs a slow rmdir per case

SEQ_OPS = ["download_local", "upload_local", "download_link", "upload_link", "delete_local", "delete_link"]


def load():
    from vlib import env

    env.check_origin()
    env.quiet_logging()
    from avocado_i2n.states import pool
    from virttest.utils_params import Params

    return pool, Params


# ---------------------------------------------------------------------------
# instrumentation of the pool module


class Injected(Exception):
    """The fault raised on purpose inside a critical section."""


class Shim:
    """Stand-in for a module: overridden names first, everything else from the real module."""

    def __init__(self, real, **overrides):
        self._real = real
        self.__dict__.update(overrides)

    def __getattr__(self, name):
        return getattr(self.__dict__["_real"], name)


class Probe:
    def __init__(self, pools, retry_scale=1.0, plan=None, notify_fd=None, release_fd=None, sleep_notify_fd=None):
        self.pools = dict(pools)  # absolute pool file path -> role name
        self.retry_scale = retry_scale
        self.plan = plan  # {"kind", "role" ("pool"|"cache"), "action" ("raise"|"block")}
        self.notify_fd, self.release_fd, self.sleep_notify_fd = notify_fd, release_fd, sleep_notify_fd
        self.reached = False
        self.events = []  # [op index, kind, role, enter, exit]
        self.counts = {"copy": 0, "unlink": 0, "symlink": 0, "hash": 0, "sleep": 0}
        self.op, self.hash_ms, self.cs_ms = -1, 0, 0

    def begin(self, op, hash_ms=0, cs_ms=0):
        self.op, self.hash_ms, self.cs_ms = op, hash_ms, cs_ms

    def role(self, *paths):
        for path in paths:
            if path in self.pools:
                return self.pools[path]
        return "cache"

    def fault(self, kind, role):
        plan = self.plan
        if not plan or self.reached or kind != plan["kind"]:
            return
        if (role != "cache") != (plan["role"] == "pool"):
            return
        self.reached = True
        if plan["action"] == "raise":
            raise Injected(f"injected at {kind}/{role}")
        os.write(self.notify_fd, b"I")
        os.read(self.release_fd, 1)  # until the parent writes, closes, or kills us

    def around(self, kind, role, call):
        self.counts[kind] = self.counts.get(kind, 0) + 1
        enter = time.monotonic()
        try:
            self.fault(kind, role)
            if kind in ("copy", "unlink") and self.cs_ms:
                time.sleep(self.cs_ms / 1000.0)
            result = call()
            if kind == "hash" and role != "cache" and self.hash_ms:
                time.sleep(self.hash_ms / 1000.0)
            return result
        finally:
            self.events.append([self.op, kind, role, enter, time.monotonic()])

    # the substituted callables
    def copy(self, src, dst, **kwargs):
        return self.around("copy", self.role(src, dst), lambda: shutil.copy(src, dst, **kwargs))

    def unlink(self, path, **kwargs):
        return self.around("unlink", self.role(path), lambda: os.unlink(path, **kwargs))

    def symlink(self, src, dst, **kwargs):
        return self.around("symlink", self.role(dst), lambda: os.symlink(src, dst, **kwargs))

    def sleep(self, seconds):
        self.counts["sleep"] += 1
        if self.sleep_notify_fd is not None and self.counts["sleep"] == 1:
            os.write(self.sleep_notify_fd, b"S")
        time.sleep(seconds * self.retry_scale)


@contextlib.contextmanager
def instrument(pool_mod, probe):
    from avocado.utils import crypto

    def hash_file(filename, *args, **kwargs):
        return probe.around("hash", probe.role(filename), lambda: crypto.hash_file(filename, *args, **kwargs))

    saved = (pool_mod.os, pool_mod.shutil, pool_mod.crypto, pool_mod.time)
    pool_mod.os = Shim(os, unlink=probe.unlink, symlink=probe.symlink)
    pool_mod.shutil = Shim(shutil, copy=probe.copy)
    pool_mod.crypto = Shim(crypto, hash_file=hash_file)
    pool_mod.time = Shim(time, sleep=probe.sleep)
    try:
        yield probe
    finally:
        pool_mod.os, pool_mod.shutil, pool_mod.crypto, pool_mod.time = saved


def call_op(pool_mod, op, via, cache, pool_root, rel, params):
    """Run one transfer op directly or through the location dispatcher."""
    ops = pool_mod.TransferOps
    pool_path = os.path.join(pool_root, rel)
    verb, mode = op.split("_")
    if via == "direct":
        if verb == "delete":
            return getattr(ops, op)(pool_path, params)
        return getattr(ops, op)(cache, pool_path, params)
    location = ":" + pool_root + (";" if mode == "link" else "")
    location = os.path.join(location, rel)
    if verb == "delete":
        return ops.delete(location, params)
    return getattr(ops, verb)(cache, location, params)


# ---------------------------------------------------------------------------
# contents


def make_bytes(spec):
    pattern, size, flips = spec
    block = hashlib.sha256(b"c14-%d" % pattern).digest() * 128
    data = bytearray((block * (size // len(block) + 1))[:size])
    for offset, xor in flips:
        if offset < size:
            data[offset] ^= xor
    return bytes(data)


@st.composite
def contents(draw):
    klass = draw(st.sampled_from(["tiny", "tiny", "small", "small", "small", "small", "edge", "big"]))
    if klass == "tiny":
        size = draw(st.integers(0, 64))
    elif klass == "small":
        size = draw(st.integers(65, 20000))
    elif klass == "edge":
        size = draw(st.one_of(st.sampled_from([MIB - 1, MIB, MIB + 1]), st.integers(MIB - 5000, MIB + 5000)))
    else:
        size = draw(st.one_of(st.sampled_from([2 * MIB, 2 * MIB + 1, 3 * MIB]), st.integers(MIB + 2, 3 * MIB)))
    return [draw(st.integers(0, 2)), size, []]


@st.composite
def related(draw, base):
    pattern, size, flips = base
    how = draw(st.sampled_from(["same", "same", "flip", "flip", "pattern", "resize"]))
    if how == "same" or (how == "flip" and size == 0):
        return [pattern, size, [list(f) for f in flips]]
    if how == "flip":
        if size > MIB and draw(st.booleans()):
            offset = draw(st.one_of(st.just(MIB), st.just(size - 1), st.integers(MIB, size - 1)))
        else:
            top = min(size, MIB) - 1
            offset = draw(st.one_of(st.just(0), st.just(top), st.integers(0, top)))
        return [pattern, size, sorted([list(f) for f in flips] + [[offset, draw(st.integers(1, 255))]])]
    if how == "pattern":
        return [(pattern + 1 + draw(st.integers(0, 1))) % 3, size, []]
    new = draw(st.one_of(st.integers(0, size), st.just(min(size + 1, 3 * MIB)), st.integers(size, max(size, min(3 * MIB, size + 5000)))))
    return [pattern, new, [list(f) for f in flips if f[0] < new]]


# ---------------------------------------------------------------------------
# part 1: sequential


@st.composite
def seq_cases(draw):
    base = draw(contents())
    cache_kind = draw(st.sampled_from(["absent", "file", "file", "file", "link_pool", "link_else", "dangling"]))
    pool_kind = draw(st.sampled_from(["absent", "file", "file", "file"]))
    cache_spec = draw(related(base))
    last = draw(related(cache_spec))
    case = {
        "part": "seq",
        "cache": [cache_kind, cache_spec],
        "pool": [pool_kind, last],
        "else": [draw(st.integers(0, 2)), draw(st.integers(0, 300)), []],
        "cache_dir": draw(st.booleans()),
        "pool_dir": draw(st.booleans()),
        "ops": [],
    }
    ck, pk = cache_kind, pool_kind
    for _ in range(draw(st.integers(1, 5))):
        allowed = ["download_link", "upload_link", "download_link", "upload_link", "delete_local", "delete_link", "write_pool"]
        if ck in ("absent", "file"):
            allowed += ["download_local", "upload_local"] * 3 + ["write_cache"] * 2
        op = draw(st.sampled_from(allowed))
        if op in ("write_cache", "write_pool"):
            last = draw(related(last))
            case["ops"].append([op, last])
        else:
            case["ops"].append([op, draw(st.sampled_from(["direct", "direct", "dispatch"]))])
        # abstract kinds, only to keep local-mode ops away from link caches
        if op == "write_cache":
            ck = "file"
        elif op == "write_pool":
            pk = "file"
        elif op == "download_local" and pk == "file":
            ck = "file"
        elif op in ("upload_local", "upload_link") and ck == "file":
            pk = "file"
        elif op == "download_link":
            if ck in ("link_else", "dangling") or (ck == "absent" and pk == "file"):
                ck = "link_pool"
        elif op.startswith("delete"):
            pk = "absent"
    return case


def snap(path):
    try:
        info = os.lstat(path)
    except FileNotFoundError:
        return {"kind": "absent", "data": None, "id": None, "target": None}
    if stat.S_ISLNK(info.st_mode):
        try:
            with open(path, "rb") as handle:
                data = handle.read()
        except FileNotFoundError:
            data = None
        return {"kind": "link", "data": data, "id": (info.st_ino, info.st_mtime_ns), "target": os.readlink(path)}
    with open(path, "rb") as handle:
        data = handle.read()
    return {"kind": "file", "data": data, "id": (info.st_ino, info.st_mtime_ns, info.st_size), "target": None}


def same(a, b, data=True):
    return a["kind"] == b["kind"] and a["id"] == b["id"] and a["target"] == b["target"] and (not data or a["data"] == b["data"])


def brief(s):
    if s["kind"] == "absent":
        return "absent"
    size = "-" if s["data"] is None else len(s["data"])
    return f"{s['kind']}(size={size}, target={s['target']})"


def write_file(path, data):
    os.makedirs(os.path.dirname(path), exist_ok=True)
    if os.path.islink(path):
        os.unlink(path)
    with open(path, "wb") as handle:
        handle.write(data)


def differs_class(a, b):
    return "beyond-first-MiB" if a[:MIB] == b[:MIB] else "within-first-MiB"


def judge(op, pool_path, C, P, E, C2, P2, E2, error, probe, case):
    """The byte-level reference for one op; raises Violation."""
    verb, mode = op.split("_")
    ename = type(error).__name__ if error is not None else None
    state = f"{op}: cache {brief(C)} -> {brief(C2)}, pool {brief(P)} -> {brief(P2)}, raised {error!r}, calls {probe.counts}"

    def bad(sig):
        raise Violation(sig, state, case)

    if not same(E, E2):
        bad({"oracle": "foreign-data-changed", "op": op})

    # which exceptions the reference expects
    expected_error = None
    if verb == "delete":
        expected_error = "FileNotFoundError" if P["kind"] == "absent" else None
    elif op == "upload_link" and C["kind"] == "link":
        expected_error = "ValueError"
    elif op == "download_link":
        if C["kind"] == "file" and (P["kind"] != "file" or P["data"] != C["data"]):
            expected_error = "RuntimeError"
    elif verb == "download" and P["kind"] == "absent" and C["kind"] == "file":
        expected_error = "FileNotFoundError"
    elif verb == "upload" and C["kind"] == "absent" and P["kind"] == "file":
        expected_error = "FileNotFoundError"
    if error is not None and ename != expected_error:
        bad({"oracle": "unexpected-exception", "op": op, "error": ename})
    if op == "upload_link" and C["kind"] == "link" and error is None:
        bad({"oracle": "link-uploaded", "kind": "no-error"})

    # the source side never changes
    if verb == "download" and not same(P, P2):
        bad({"oracle": "source-changed", "op": op})
    if verb == "upload" and not same(C, C2):
        bad({"oracle": "source-changed", "op": op})
    if verb == "delete" and not same(C, C2, data=False):
        bad({"oracle": "source-changed", "op": op})
    if verb == "upload" and P2["kind"] == "link":
        bad({"oracle": "link-uploaded", "kind": "pool-is-link"})
    # real data is never replaced by a link
    if op == "download_link" and C["kind"] == "file" and not same(C, C2):
        bad({"oracle": "data-replaced", "by": C2["kind"]})
    if error is not None:
        if verb == "download" and not same(C, C2):
            bad({"oracle": "destination-changed-on-error", "op": op})
        if verb == "upload" and not same(P, P2):
            bad({"oracle": "destination-changed-on-error", "op": op})
        if verb == "delete" and P2["kind"] != "absent":
            bad({"oracle": "destination-changed-on-error", "op": op})
        return "raised-" + ename

    def inexact(src, dst):
        copied = probe.counts["copy"] > 0
        sig = {"oracle": "destination-differs", "kind": "copy-wrong" if copied else "copy-skipped"}
        if dst["data"] is not None and src["data"] is not None:
            sig["differs"] = differs_class(src["data"], dst["data"])
        bad(sig)

    modified = probe.counts["copy"] + probe.counts["unlink"] + probe.counts["symlink"]
    if verb == "delete":
        if P2["kind"] != "absent":
            bad({"oracle": "not-deleted", "op": op})
        return "deleted"
    if op == "download_local":
        if P["kind"] == "absent":
            if not same(C, C2):
                bad({"oracle": "destination-changed-without-source", "op": op})
            return "nothing"
        if C2["kind"] != "file" or C2["data"] != P["data"]:
            inexact(P, C2)
        if C["kind"] == "file" and C["data"] == P["data"]:
            if modified or not same(C, C2):
                bad({"oracle": "copy-not-skipped", "op": op})
            return "skipped"
        return "copied"
    if verb == "upload":
        if C["kind"] == "absent":
            if not same(P, P2):
                bad({"oracle": "destination-changed-without-source", "op": op})
            return "nothing"
        if P2["kind"] != "file" or P2["data"] != C["data"]:
            inexact(C, P2)
        if P["kind"] == "file" and P["data"] == C["data"]:
            if modified or not same(P, P2):
                bad({"oracle": "copy-not-skipped", "op": op})
            return "skipped"
        return "copied"
    # download_link without error
    if C["kind"] == "file":
        if P["kind"] != "file" or P["data"] != C2["data"]:
            inexact(P, C2)
        if modified:
            bad({"oracle": "copy-not-skipped", "op": op})
        return "skipped"
    if C["kind"] == "absent" and P["kind"] == "absent":
        if not (C2["kind"] == "absent" or (C2["kind"] == "link" and C2["target"] == pool_path)):
            bad({"oracle": "destination-changed-without-source", "op": op})
        return "nothing"
    if C2["kind"] != "link" or C2["target"] != pool_path:
        bad({"oracle": "link-not-to-pool", "from": C["kind"]})
    if C["kind"] == "link" and C["target"] == pool_path:
        if modified or not same(C, C2, data=False):
            bad({"oracle": "copy-not-skipped", "op": op})
        return "skipped"
    return "linked"


def run_seq(case, impl, scratch):
    """Execute one sequential case; returns (nontrivial, labels)."""
    pool_mod, Params = impl
    root = os.path.join(os.path.realpath(scratch), "seq")
    cache = os.path.join(root, "cache", "state.qcow2")
    pool_root = os.path.join(root, "pool")
    rel = "state.qcow2"
    pool_path = os.path.join(pool_root, rel)
    other = os.path.join(root, "other.qcow2")
    # one tree per shard, emptied before every case (removing directories is the slow part here)
    for directory in (os.path.dirname(cache), pool_root, root):
        if os.path.isdir(directory):
            for name in sorted(os.listdir(directory)):
                if not os.path.isdir(os.path.join(directory, name)) or os.path.islink(os.path.join(directory, name)):
                    os.unlink(os.path.join(directory, name))
    if not case["cache_dir"] and case["cache"][0] == "absent" and os.path.isdir(os.path.dirname(cache)):
        os.rmdir(os.path.dirname(cache))
    if not case["pool_dir"] and os.path.isdir(pool_root):
        os.rmdir(pool_root)
    os.makedirs(root, exist_ok=True)
    write_file(other, make_bytes(case["else"]))
    cache_kind, cache_spec = case["cache"]
    pool_kind, pool_spec = case["pool"]
    if case["cache_dir"] or cache_kind != "absent":
        os.makedirs(os.path.dirname(cache), exist_ok=True)
    if case["pool_dir"]:
        os.makedirs(os.path.dirname(pool_path), exist_ok=True)
    if pool_kind == "file":
        write_file(pool_path, make_bytes(pool_spec))
    if cache_kind == "file":
        write_file(cache, make_bytes(cache_spec))
    elif cache_kind == "link_pool":
        os.symlink(pool_path, cache)
    elif cache_kind == "link_else":
        os.symlink(other, cache)
    elif cache_kind == "dangling":
        os.symlink(os.path.join(root, "missing.qcow2"), cache)
    params = Params({"update_pool_timeout": "3"})
    labels, nontrivial = [], False
    for op, arg in case["ops"]:
        if op == "write_cache":
            write_file(cache, make_bytes(arg))
            continue
        if op == "write_pool":
            write_file(pool_path, make_bytes(arg))
            continue
        C, P, E = snap(cache), snap(pool_path), snap(other)
        probe = Probe({pool_path: "pool"})
        error = None
        with instrument(pool_mod, probe):
            try:
                call_op(pool_mod, op, arg, cache, pool_root, rel, params)
            except Exception as caught:  # classified by judge(); unexpected ones become violations there
                error = caught
        outcome = judge(op, pool_path, C, P, E, snap(cache), snap(pool_path), snap(other), error, probe, case)
        labels.append(f"seq:{op}:{outcome}")
        if C["kind"] == "link" or (C["kind"] == "file" and P["kind"] == "file"):
            nontrivial = True
            if C["kind"] == "file" and C["data"] != P["data"]:
                labels.append("seq:both-present:differ-" + differs_class(C["data"], P["data"]))
            elif C["kind"] == "file":
                labels.append("seq:both-present:equal")
        if max(len(C["data"] or b""), len(P["data"] or b"")) > MIB:
            labels.append("seq:op-on->1MiB")
    return nontrivial, sorted(set(labels))


# ---------------------------------------------------------------------------
# process helpers (parts 2 and 3)


def spawn(fn, errfile):
    """Fork; the child runs fn() and never returns into the caller's stack."""
    pid = os.fork()
    if pid:
        return pid
    code = 3
    try:
        fn()
        code = 0
    except BaseException:  # child side only: report through the error file and the exit code
        try:
            with open(errfile, "w") as handle:
                handle.write(traceback.format_exc())
        except OSError:
            pass
    finally:
        os._exit(code)


def kill_all(pids):
    for pid in pids:
        try:
            os.kill(pid, signal.SIGKILL)
        except ProcessLookupError:
            pass
    for pid in pids:
        try:
            os.waitpid(pid, 0)
        except ChildProcessError:
            pass


def reap(pids, guard, what, also_kill=()):
    """Wait for the children; an expired guard is a harness error (inconclusive)."""
    deadline = time.monotonic() + guard
    status = {}
    while len(status) < len(pids):
        for pid in pids:
            if pid not in status:
                done, code = os.waitpid(pid, os.WNOHANG)
                if done:
                    status[pid] = code
        if len(status) < len(pids):
            if time.monotonic() > deadline:
                kill_all([p for p in pids if p not in status] + list(also_kill))
                raise HarnessError(f"guard timeout ({guard:.0f} s) while waiting for {what}: inconclusive")
            time.sleep(0.004)
    return status


def wait_byte(fd, guard, what, pids=()):
    """Read one byte from a child; b'' means the child closed its end."""
    ready, _, _ = select.select([fd], [], [], guard)
    if not ready:
        kill_all(list(pids))
        raise HarnessError(f"guard timeout ({guard:.0f} s) while waiting for {what}: inconclusive")
    return os.read(fd, 1)


def child_error(errfile, what):
    text = open(errfile).read() if os.path.exists(errfile) else "(no traceback file)"
    return HarnessError(f"{what} failed in the harness:\n{text}")


def md5(data):
    return hashlib.md5(data).hexdigest()


# ---------------------------------------------------------------------------
# part 2: multi-process fuzz

FUZZ_SIZES = [17, 4096, 70000, 300000, 1200000, 33]
FUZZ_OPS = ["upload_local", "upload_local", "upload_link", "download_local", "download_local", "download_link",
            "delete_local", "delete_link"]


def fuzz_bytes(index):
    size = FUZZ_SIZES[index]
    head = bytes([65 + index]) * 16
    return (head + make_bytes([index % 3, size, []]))[:size]


@st.composite
def fuzz_rounds(draw):
    nchildren = draw(st.sampled_from([2, 2, 3, 3, 4, 4, 5, 6, 8]))
    nfiles = draw(st.sampled_from([1, 1, 1, 2]))
    files = [draw(st.one_of(st.none(), st.integers(0, 5))) for _ in range(nfiles)]
    retry_ms = draw(st.sampled_from([10, 20, 20, 50, 1000]))
    max_ops = 2 if retry_ms == 1000 else 6
    children = []
    for _ in range(nchildren):
        ops = []
        for _ in range(draw(st.integers(1, max_ops))):
            ops.append([draw(st.sampled_from(FUZZ_OPS)), draw(st.integers(0, nfiles - 1)), draw(st.integers(0, 5)),
                        draw(st.integers(0, 20)), draw(st.integers(0, 30)), draw(st.integers(0, 30))])
        children.append(ops)
    return {"part": "fuzz", "retry_ms": retry_ms, "files": files, "children": children}


def fuzz_child(impl, case, index, root, start_fd):
    pool_mod, Params = impl
    pool_root = os.path.join(root, "pool")
    pools = {os.path.join(pool_root, REL, f"s{i}.qcow2"): f"pool{i}" for i in range(len(case["files"]))}
    probe = Probe(pools, retry_scale=case["retry_ms"] / 1000.0)
    params = Params({"update_pool_timeout": "3000"})
    results = []
    os.read(start_fd, 1)  # barrier: returns when the parent closes its end
    with instrument(pool_mod, probe):
        for number, (op, fileno, content, pre_ms, hash_ms, cs_ms) in enumerate(case["children"][index]):
            rel = os.path.join(REL, f"s{fileno}.qcow2")
            pool_path = os.path.join(pool_root, rel)
            cache = os.path.join(root, f"cache{index}", rel)
            if op.startswith("upload"):
                write_file(cache, fuzz_bytes(content))
            elif op == "download_local" and os.path.islink(cache):
                os.unlink(cache)
            elif op == "download_link" and os.path.lexists(cache) and not os.path.islink(cache):
                os.unlink(cache)
            cache_before = os.path.lexists(cache)
            probe.begin(number, hash_ms, cs_ms)
            time.sleep(pre_ms / 1000.0)
            result = {"outcome": "ok", "message": "", "cache_before": cache_before}
            try:
                call_op(pool_mod, op, "direct", cache, pool_root, rel, params)
            except Exception as error:  # reported to the parent, which classifies it
                result["outcome"], result["message"] = type(error).__name__, str(error)[:300]
            if op == "download_local" and os.path.isfile(cache):
                with open(cache, "rb") as handle:
                    result["md5"] = md5(handle.read())
            if op == "download_link":
                result["link_ok"] = os.path.islink(cache) and os.readlink(cache) == pool_path
            results.append(result)
    with open(os.path.join(root, f"child{index}.json"), "w") as handle:
        json.dump({"results": results, "events": probe.events, "retries": probe.counts["sleep"]}, handle)


def run_fuzz(case, impl, scratch):
    """One round; returns (nontrivial, labels); raises Violation / HarnessError."""
    root = tempfile.mkdtemp(prefix="fuzz-", dir=os.path.realpath(scratch))
    pids = []
    try:
        pool_dir = os.path.join(root, "pool", REL)
        os.makedirs(pool_dir)
        for fileno, initial in enumerate(case["files"]):
            if initial is not None:
                write_file(os.path.join(pool_dir, f"s{fileno}.qcow2"), fuzz_bytes(initial))
        start_r, start_w = os.pipe()
        for index in range(len(case["children"])):
            def body(index=index):
                os.close(start_w)
                fuzz_child(impl, case, index, root, start_r)
            pids.append(spawn(body, os.path.join(root, f"child{index}.err")))
        os.close(start_r)
        os.close(start_w)
        status = reap(pids, 4 * GUARD, "the children of a fuzz round")
        reports = []
        for index, pid in enumerate(pids):
            if status[pid] != 0:
                raise child_error(os.path.join(root, f"child{index}.err"), f"fuzz child {index} (status {status[pid]})")
            with open(os.path.join(root, f"child{index}.json")) as handle:
                reports.append(json.load(handle))
        finals = []
        for fileno in range(len(case["files"])):
            path = os.path.join(pool_dir, f"s{fileno}.qcow2")
            finals.append(md5(open(path, "rb").read()) if os.path.isfile(path) and not os.path.islink(path) else
                          ("link" if os.path.islink(path) else None))
        return judge_fuzz(case, reports, finals)
    finally:
        shutil.rmtree(root, ignore_errors=True)


def judge_fuzz(case, reports, finals):
    digests = [md5(fuzz_bytes(i)) for i in range(len(FUZZ_SIZES))]
    # 1. outcomes of the single ops
    for index, report in enumerate(reports):
        for number, result in enumerate(report["results"]):
            op = case["children"][index][number][0]
            outcome = result["outcome"]
            if outcome == "RuntimeError" and "Waiting to acquire" in result["message"]:
                raise HarnessError(f"lock wait of 3000 retries expired in fuzz child {index} op {number}: inconclusive")
            allowed = {"ok"}
            if op == "download_local" or op.startswith("delete"):
                allowed.add("FileNotFoundError")
            if outcome not in allowed:
                raise Violation({"oracle": "unexpected-exception", "part": "fuzz", "op": op, "error": outcome},
                                f"child {index} op {number} {op}: {outcome}: {result['message']}", case)
    # 2. no two transfers of the same pool file overlap
    labels, contended = [], False
    for fileno in range(len(case["files"])):
        role = f"pool{fileno}"
        spans = {}
        for index, report in enumerate(reports):
            for number, kind, event_role, enter, leave in report["events"]:
                if event_role != role:
                    continue
                span = spans.setdefault((index, number), {"enter": enter, "exit": leave, "kinds": [], "write": False})
                span["enter"], span["exit"] = min(span["enter"], enter), max(span["exit"], leave)
                span["kinds"].append(kind)
                op = case["children"][index][number][0]
                if kind == "unlink" or (kind == "copy" and op.startswith("upload")):
                    span["write"] = True
        order = sorted(spans.items(), key=lambda item: (item[1]["enter"], item[0]))
        latest = None
        for key, span in order:
            if latest is not None and span["enter"] < latest[1]["exit"]:
                writes = int(span["write"]) + int(latest[1]["write"])
                raise Violation(
                    {"oracle": "critical-sections-overlap", "writes": ["none", "one", "both"][writes]},
                    f"pool file {fileno}: child {latest[0][0]} op {latest[0][1]} {latest[1]['kinds']} "
                    f"[{latest[1]['enter']:.6f},{latest[1]['exit']:.6f}) overlaps child {key[0]} op {key[1]} "
                    f"{span['kinds']} [{span['enter']:.6f},{span['exit']:.6f})", case)
            if latest is None or span["exit"] > latest[1]["exit"]:
                latest = (key, span)
        # 3. final content is one of the uploaded contents (or the initial one) or absent
        uploaded = {digests[ops[2]] for child in case["children"] for ops in child
                    if ops[0].startswith("upload") and ops[1] == fileno}
        if case["files"][fileno] is not None:
            uploaded.add(digests[case["files"][fileno]])
        if finals[fileno] is not None and finals[fileno] not in uploaded:
            raise Violation({"oracle": "fuzz-final-content", "kind": "not-any-uploaded-content"},
                            f"pool file {fileno} ends with md5 {finals[fileno]}, uploaded were {sorted(uploaded)}", case)
        # 4. the non-overlapping sections, in their observed order, give the sequential result
        state = case["files"][fileno]
        for (index, number), span in order:
            op, _, content = case["children"][index][number][:3]
            result = reports[index]["results"][number]
            problem = None
            if op.startswith("upload"):
                if state != content and "copy" not in span["kinds"]:
                    problem = "upload-skipped-though-different"
                state = content
            elif op == "download_local":
                if state is None:
                    if result["outcome"] != "FileNotFoundError":
                        problem = "download-of-absent-succeeded"
                elif result["outcome"] != "ok":
                    problem = "download-of-present-failed"
                elif result.get("md5") not in digests:
                    problem = "download-torn"
                elif result.get("md5") != digests[state]:
                    problem = "download-content"
            elif op == "download_link":
                if state is None or not result.get("link_ok"):
                    problem = "link-download"
            else:
                if (state is None) != (result["outcome"] == "FileNotFoundError"):
                    problem = "delete-outcome"
                state = None
            if problem:
                raise Violation({"oracle": "fuzz-not-sequential", "what": problem},
                                f"pool file {fileno}: child {index} op {number} {op} saw {result} while the ordered "
                                f"sections imply content index {state}", case)
        expected = None if state is None else digests[state]
        if finals[fileno] != expected:
            raise Violation({"oracle": "fuzz-not-sequential", "what": "final-content"},
                            f"pool file {fileno} ends with {finals[fileno]}, ordered sections imply {expected}", case)
        writers = {key[0] for key, span in order if span["write"]}
        if len(writers) >= 2:
            contended = True
    retries = sum(report["retries"] for report in reports)
    labels.append(f"fuzz:children={len(reports)}")
    labels.append("fuzz:retry=real-1s" if case["retry_ms"] == 1000 else "fuzz:retry=scaled")
    labels.append("fuzz:lock-retries=" + ("0" if not retries else "1-4" if retries < 5 else ">=5"))
    if contended:
        labels.append("fuzz:>=2-writers-on-one-file")
    return contended and retries > 0, labels


# ---------------------------------------------------------------------------
# part 3: enumerated faults

POINTS = {
    "upload_local": [["hash", "cache"], ["hash", "pool"], ["copy", "pool"]],
    "download_local": [["hash", "cache"], ["hash", "pool"], ["copy", "pool"]],
    "delete_local": [["unlink", "pool"]],
    "download_link": [["hash", "pool"], ["unlink", "cache"], ["symlink", "cache"]],
    "upload_link": [["copy", "pool"]],
    "image_lock": [["body", "pool"]],
}
NATURAL = [  # (holder op, holder cache, pool present) -> the real code raises inside the section by itself
    ["delete_local", "absent", False, "FileNotFoundError"],
    ["download_local", "file", False, "FileNotFoundError"],
    ["upload_local", "absent", True, "FileNotFoundError"],
    ["download_link", "file", True, "RuntimeError"],
]
NEXT_OPS = ["upload_local", "download_local", "delete_local"]
WAITER_OPS = ["upload_local", "download_local", "delete_local", "download_link", "upload_link"]


def fault_table():
    rows = []
    for op, points in sorted(POINTS.items()):
        for point in points:
            for nxt in NEXT_OPS:
                rows.append({"part": "fault", "fault": "exception", "op": op, "point": point, "next": nxt})
            for nxt in ("upload_local", "delete_local"):
                rows.append({"part": "fault", "fault": "sigkill", "op": op, "point": point, "next": nxt})
    for op, cache, pool_present, error in NATURAL:
        for nxt in (NEXT_OPS if pool_present else ["upload_local"]):
            rows.append({"part": "fault", "fault": "natural", "op": op, "cache": cache, "pool": pool_present,
                         "error": error, "next": nxt})
    for nxt in WAITER_OPS:
        for timeout in (1, 2):
            rows.append({"part": "fault", "fault": "timeout", "op": "upload_local", "point": ["copy", "pool"],
                         "next": nxt, "timeout": timeout})
    for nxt in NEXT_OPS:
        rows.append({"part": "fault", "fault": "release", "op": "upload_local", "point": ["copy", "pool"], "next": nxt})
    return rows


HOLDER, WAITER, ORIGINAL = 1, 2, 3  # content indices (fuzz_bytes)


def holder_main(impl, row, root, notify_w, release_r):
    """Process A: runs one op with the fault planned inside its critical section."""
    pool_mod, Params = impl
    pool_root = os.path.join(root, "pool")
    rel = os.path.join(REL, "s0.qcow2")
    pool_path = os.path.join(pool_root, rel)
    cache = os.path.join(root, "cacheA", rel)
    plan = None
    if row["fault"] != "natural":
        action = "raise" if row["fault"] == "exception" else "block"
        plan = {"kind": row["point"][0], "role": row["point"][1], "action": action}
    probe = Probe({pool_path: "pool"}, plan=plan, notify_fd=notify_w, release_fd=release_r)
    probe.begin(0)
    params = Params({"update_pool_timeout": "5"})
    outcome, message = "ok", ""
    with instrument(pool_mod, probe):
        try:
            if row["op"] == "image_lock":
                with pool_mod.image_lock(pool_path, 5):
                    probe.around("body", "pool", lambda: None)
            else:
                call_op(pool_mod, row["op"], "direct", cache, pool_root, rel, params)
        except Exception as error:  # reported to the parent, which classifies it
            outcome, message = type(error).__name__, str(error)[:300]
    with open(os.path.join(root, "A.json"), "w") as handle:
        json.dump({"outcome": outcome, "message": message, "reached": probe.reached, "events": probe.events}, handle)
    os.write(notify_w, b"D")
    os.read(release_r, 1)  # stay alive (a leaked lock would stay held) until the parent lets go


def waiter_main(impl, row, root, timeout, sleep_notify_w=None):
    """Process B: the next locker."""
    pool_mod, Params = impl
    pool_root = os.path.join(root, "pool")
    rel = os.path.join(REL, "s0.qcow2")
    pool_path = os.path.join(pool_root, rel)
    cache = os.path.join(root, "cacheB", rel)
    probe = Probe({pool_path: "pool"}, sleep_notify_fd=sleep_notify_w)
    probe.begin(0)
    params = Params({"update_pool_timeout": str(timeout)})
    outcome, message = "ok", ""
    with instrument(pool_mod, probe):
        try:
            call_op(pool_mod, row["next"], "direct", cache, pool_root, rel, params)
        except Exception as error:  # reported to the parent, which classifies it
            outcome, message = type(error).__name__, str(error)[:300]
    with open(os.path.join(root, "B.json"), "w") as handle:
        json.dump({"outcome": outcome, "message": message, "events": probe.events, "counts": probe.counts}, handle)


def run_fault(row, impl, scratch):
    """One row of the table; raises Violation / HarnessError; returns labels."""
    root = tempfile.mkdtemp(prefix="fault-", dir=os.path.realpath(scratch))
    live = []
    try:
        rel = os.path.join(REL, "s0.qcow2")
        pool_path = os.path.join(root, "pool", rel)
        cache_a = os.path.join(root, "cacheA", rel)
        cache_b = os.path.join(root, "cacheB", rel)
        fault, op, nxt = row["fault"], row["op"], row["next"]
        # --- initial files: every planned point must be reachable
        pool_present = row.get("pool", True)
        os.makedirs(os.path.dirname(pool_path))
        if pool_present:
            write_file(pool_path, fuzz_bytes(ORIGINAL))
        a_cache = row.get("cache", "file")
        os.makedirs(os.path.dirname(cache_a))
        if op == "download_link" and fault != "natural":
            if row["point"] == ["unlink", "cache"]:
                write_file(os.path.join(root, "elsewhere.qcow2"), fuzz_bytes(HOLDER))
                os.symlink(os.path.join(root, "elsewhere.qcow2"), cache_a)
        elif a_cache == "file":
            write_file(cache_a, fuzz_bytes(HOLDER))
        if nxt in ("upload_local", "upload_link"):
            write_file(cache_b, fuzz_bytes(WAITER))

        def load_report(name, pid_status):
            if pid_status != 0 or not os.path.exists(os.path.join(root, name + ".json")):
                raise child_error(os.path.join(root, name + ".err"), f"fault process {name} (status {pid_status})")
            with open(os.path.join(root, name + ".json")) as handle:
                return json.load(handle)

        # --- process A
        notify_r, notify_w = os.pipe()
        release_r, release_w = os.pipe()

        def a_body():
            os.close(notify_r)
            os.close(release_w)
            holder_main(impl, row, root, notify_w, release_r)

        pid_a = spawn(a_body, os.path.join(root, "A.err"))
        live.append(pid_a)
        os.close(notify_w)
        os.close(release_r)
        first = wait_byte(notify_r, GUARD, "the holder to reach its injection point", live)
        expect_first = b"D" if fault in ("exception", "natural") else b"I"
        if first == b"D" and expect_first == b"I":
            return None  # the holder finished without making the planned call: no subject (see below)
        if first != expect_first:
            kill_all(live)
            raise child_error(os.path.join(root, "A.err"),
                              f"fault row {row}: holder sent {first!r} instead of {expect_first!r} (injection point not reached?)")
        report_a = None
        if fault in ("exception", "natural"):
            with open(os.path.join(root, "A.json")) as handle:
                report_a = json.load(handle)
            if fault == "exception" and report_a["reached"] and report_a["outcome"] != "Injected":
                kill_all(live)
                raise HarnessError(f"fault row {row}: holder ended with {report_a} instead of the injected fault")
            if not report_a["reached"] if fault == "exception" else report_a["outcome"] == "ok":
                # the code under test never made the planned call / nothing failed inside the section (part 1
                # judges whether it should have): the row has no subject, which the evidence shows as a class
                return None
        elif fault == "sigkill":
            os.kill(pid_a, signal.SIGKILL)
            os.waitpid(pid_a, 0)
            live.remove(pid_a)

        before_pool, before_cache_b = snap(pool_path), snap(cache_b)
        # --- process B
        timeout = {"timeout": row.get("timeout"), "release": 10}.get(fault, 3)
        sleep_r = sleep_w = None
        if fault == "release":
            sleep_r, sleep_w = os.pipe()

        def b_body():
            os.close(notify_r)
            os.close(release_w)
            if sleep_r is not None:
                os.close(sleep_r)
            waiter_main(impl, row, root, timeout, sleep_w)

        pid_b = spawn(b_body, os.path.join(root, "B.err"))
        live.append(pid_b)
        waited_first = None
        if fault == "release":
            os.close(sleep_w)
            waited_first = wait_byte(sleep_r, GUARD, "the waiter's first retry", live)  # b"" = it never waited
            os.close(sleep_r)
            os.write(release_w, b"R")  # the holder finishes its copy and unlocks
        status = reap([pid_b], GUARD + timeout, "the next locker", also_kill=live)
        live.remove(pid_b)
        report_b = load_report("B", status[pid_b])
        after_pool, after_cache_b = snap(pool_path), snap(cache_b)
        if fault == "timeout":
            os.write(release_w, b"R")
        os.close(release_w)
        if pid_a in live:
            status_a = reap([pid_a], GUARD, "the holder to finish")
            live.remove(pid_a)
            report_a = load_report("A", status_a[pid_a])
        os.close(notify_r)
        final_pool = snap(pool_path)

        # --- oracles
        b_out = report_b["outcome"]
        lock_expired = b_out == "RuntimeError" and "Waiting to acquire" in report_b["message"]
        touched = [e for e in report_b["events"] if e[1] in ("copy", "unlink", "symlink") or e[2] == "pool"]
        detail = f"row {row}: holder {report_a}, next locker {report_b}"
        if fault == "timeout":
            if b_out != "RuntimeError":
                raise Violation({"oracle": "no-error-after-timeout", "outcome": "ok" if b_out == "ok" else "other-error"},
                                detail, row)
            if touched or not same(before_pool, after_pool) or not same(before_cache_b, after_cache_b):
                raise Violation({"oracle": "transfer-without-lock", "fault": "timeout"}, detail, row)
            if report_a["outcome"] != "ok" or final_pool["data"] != fuzz_bytes(HOLDER):
                raise Violation({"oracle": "holder-transfer-inexact", "fault": "timeout"}, detail, row)
            return [f"fault:timeout:{nxt}"]
        if lock_expired:
            if fault == "release":
                raise HarnessError(f"{detail}: the waiter did not get the lock within 10 retries after the release: inconclusive")
            raise Violation({"oracle": "lock-not-released", "fault": fault}, detail, row)
        if fault == "release":
            a_exit = max(e[4] for e in report_a["events"] if e[2] == "pool")
            b_enter = min([e[3] for e in report_b["events"] if e[2] == "pool"] or [a_exit])
            if waited_first != b"S" or b_enter < a_exit:
                raise Violation({"oracle": "critical-sections-overlap", "writes": "waiter-did-not-wait"}, detail, row)
            if report_a["outcome"] != "ok":
                raise Violation({"oracle": "holder-transfer-inexact", "fault": "release"}, detail, row)
            pool_at_b = fuzz_bytes(HOLDER)
        else:
            if report_b["counts"]["sleep"] > 1:
                raise Violation({"oracle": "lock-not-released", "fault": fault, "kind": "late"}, detail, row)
            pool_at_b = before_pool["data"]
        # the next locker's own transfer is the sequential one
        if nxt == "upload_local":
            good = b_out == "ok" and after_pool["kind"] == "file" and after_pool["data"] == fuzz_bytes(WAITER)
        elif nxt == "download_local":
            good = b_out == "ok" and after_cache_b["kind"] == "file" and after_cache_b["data"] == pool_at_b
        else:
            good = b_out == "ok" and after_pool["kind"] == "absent"
        if not good:
            raise Violation({"oracle": "next-locker-transfer-wrong", "fault": fault, "next": nxt}, detail, row)
        return [f"fault:{fault}:{op}:{'/'.join(row['point']) if 'point' in row else row['error']}"]
    finally:
        kill_all(live)
        shutil.rmtree(root, ignore_errors=True)


# ---------------------------------------------------------------------------

REGRESSIONS = [
    {"part": "seq", "cache": ["file", [0, 300, []]], "pool": ["file", [0, 300, []]], "else": [1, 10, []],
     "cache_dir": True, "pool_dir": True, "ops": [["download_local", "direct"], ["upload_local", "dispatch"]]},
    {"part": "seq", "cache": ["file", [0, 5000, [[7, 1]]]], "pool": ["file", [0, 5000, []]], "else": [1, 10, []],
     "cache_dir": True, "pool_dir": True,
     "ops": [["upload_local", "direct"], ["write_pool", [1, 40, []]], ["download_local", "dispatch"], ["delete_local", "direct"]]},
    {"part": "seq", "cache": ["file", [0, MIB + 100, [[MIB - 1, 9]]]], "pool": ["file", [0, MIB + 100, []]], "else": [1, 10, []],
     "cache_dir": True, "pool_dir": True, "ops": [["upload_local", "direct"], ["write_cache", [0, MIB, []]], ["download_local", "direct"]]},
    {"part": "seq", "cache": ["file", [0, 64, [[0, 1]]]], "pool": ["file", [0, 64, []]], "else": [2, 20, []],
     "cache_dir": True, "pool_dir": False,
     "ops": [["download_link", "direct"], ["upload_link", "dispatch"], ["download_link", "dispatch"]]},
    {"part": "seq", "cache": ["link_else", [0, 64, []]], "pool": ["file", [0, 64, []]], "else": [2, 20, []],
     "cache_dir": True, "pool_dir": True,
     "ops": [["upload_link", "direct"], ["download_link", "direct"], ["download_link", "direct"], ["delete_link", "dispatch"]]},
    {"part": "seq", "cache": ["dangling", [0, 64, []]], "pool": ["absent", [0, 64, []]], "else": [2, 20, []],
     "cache_dir": True, "pool_dir": False, "ops": [["download_link", "direct"], ["delete_local", "direct"]]},
    {"part": "fuzz", "retry_ms": 20, "files": [0],
     "children": [[["upload_local", 0, 1, 0, 20, 30], ["delete_local", 0, 0, 5, 0, 20]],
                  [["upload_local", 0, 2, 0, 20, 30], ["download_local", 0, 0, 0, 10, 10]],
                  [["download_local", 0, 0, 0, 30, 30], ["upload_link", 0, 3, 0, 0, 30]]]},
]


def execute(case, impl, scratch):
    if case["part"] == "seq":
        return run_seq(case, impl, scratch)
    if case["part"] == "fuzz":
        return run_fuzz(case, impl, scratch)
    labels = run_fault(case, impl, scratch)
    return labels is not None, labels or []


def run(ctx):
    impl = load()

    def seq_body(case):
        nontrivial, labels = run_seq(case, impl, ctx.scratch)
        ctx.case(case, nontrivial, labels + (["seq:nontrivial"] if nontrivial else []))

    def fuzz_body(case):
        # scheduling dependent: record directly instead of letting hypothesis shrink and re-run (flaky by nature)
        try:
            nontrivial, labels = run_fuzz(case, impl, ctx.scratch)
        except Violation as violation:
            ctx.record_violation(violation, case)
            ctx.case(case, True, ["fuzz:violation"])
            return
        ctx.case(case, nontrivial, labels + (["fuzz:nontrivial"] if nontrivial else []))

    for case in (REGRESSIONS if ctx.shard == 0 else []):
        try:
            (seq_body if case["part"] == "seq" else fuzz_body)(case)
        except Violation as violation:
            ctx.record_violation(violation, case)

    started = time.monotonic()
    table = fault_table()
    ctx.exhaustive_parts.append(f"fault table: {len(table)} rows (exception/natural/sigkill at every wrapped call "
                                "inside the section x next op, timeout x waiter op x {1,2} s, release x next op)")
    # skewed round-robin: the slow (timeout / release) rows are adjacent in the table and must not pile up on a few shards
    mine = [row for i, row in enumerate(table) if (i + 5 * (i // ctx.nshards)) % ctx.nshards == ctx.shard]
    for row in mine:
        try:
            labels = run_fault(row, impl, ctx.scratch)
        except Violation as violation:
            ctx.record_violation(violation, row)
            labels = ["fault:violation"]
        ctx.case(row, labels is not None, labels or ["fault:no-subject(point-not-reached)"])

    ctx.extra["wall_fault_s"] = round(time.monotonic() - started, 1)
    started = time.monotonic()
    ctx.hyp(seq_cases(), seq_body, ctx.budget(3200, 40000), name="seq")
    ctx.extra["wall_seq_s"] = round(time.monotonic() - started, 1)
    started = time.monotonic()
    ctx.hyp(fuzz_rounds(), fuzz_body, ctx.budget(96, 2000), name="fuzz", shrink=False)
    ctx.extra["wall_fuzz_s"] = round(time.monotonic() - started, 1)


def replay(ctx, case):
    impl = load()
    attempts = 5 if case.get("part") == "fuzz" else 1
    for _ in range(attempts):
        try:
            execute(case, impl, ctx.scratch)
        except Violation as violation:
            return [violation]
    return []
