"""C18 - the vm network model stays consistent and its address arithmetic is exact
(DESIGN.md section 4, C18).

Part A (hypothesis): a generated network description (1..4 vms x 1..3 nics over
pairwise disjoint-or-identical subnets) is turned into test parameters, a real
``VMNetwork`` is built over a stub env/vm pair as in test_vm_network.py, the
registries are compared with a reference model computed with ``ipaddress`` and a
short generated sequence of allocate / drain / reattach / translate operations is
applied with the registry invariant re-checked after every step.
Part B (hypothesis stateful): longer allocate / reattach / translate histories.
Part C (enumerated): netmask <-> prefix length conversion for all 33 prefix lengths.
"""

import ipaddress

from hypothesis import strategies as st
from hypothesis.stateful import RuleBasedStateMachine, rule, precondition, invariant, initialize

from vlib.core import Violation

LEVEL = "exploration"
RULE = (
    "A: case = (network description: 1..4 vms, each with an ordered subset of the nics b0..b2, every interface in one "
    "of 1..5 pairwise disjoint IPv4 subnets /8../30 - random, sibling of / nested in the sibling of an earlier subnet, "
    "with a DHCP range inside the host part and unique static addresses outside it; optional host address, optional "
    "default range, vms pre-registered in the env or not; 0..6 abstract operations). Non-trivial when the network has "
    ">=2 subnets and one subnet is shared by interfaces of >=2 vms, or when the description carries the documented "
    "misconfiguration (address inside an existing subnet, different netmask). "
    "B: case = (valid description with >=2 vms, executed rule sequence); non-trivial when >=1 reattach succeeded and "
    ">=2 addresses were taken from one range. C: one case per prefix length. Distinct = canonical JSON of the case."
)
ASSUMPTIONS = [
    "env and vm objects are stubs as in selftests/isolation/test_vm_network.py (get_vm/create_vm, name, params)",
    "subnets are pairwise disjoint or identical; overlapping subnets of different length are replaced at generation "
    "time and counted (extra.excluded_overlapping_candidates)",
    "static addresses (and the optional host address) lie outside the DHCP range and are unique; the only exception is "
    "part D, where one nic statically holds the first address of a still unused range and is reattached within its "
    "own subnet as the first allocation (it then gets its own address back, nothing is used twice)",
    "all interfaces of one subnet carry the same range/host/netdst parameters",
    "reattach_interface is driven without proxy_nic (the proxy-ARP mode duplicates an address on purpose and its "
    "source carries a TODO that it invalidates the netconfig) and only towards networks whose range still has a free "
    "address (counted in extra.excluded_reattach_to_exhausted); exhaustion is exercised through "
    "get_allocatable_address directly",
    "the order in which a range is handed out is not part of the property, only 'each address once, then IndexError'",
]

NICS = ["b0", "b1", "b2"]
ROLES = {"b0": "host_nic", "b1": "internet_nic", "b2": "lan_nic"}


def load():
    from vlib import env

    env.check_origin()
    env.quiet_logging()
    from avocado_i2n.vmnet.network import VMNetwork
    from avocado_i2n.vmnet.netconfig import VMNetconfig
    from virttest.utils_params import Params

    return VMNetwork, VMNetconfig, Params


# ---------------------------------------------------------------------------
# stubs (selftests use MagicMock objects with exactly these attributes)


class StubVM:
    def __init__(self, name, params):
        self.name = name
        self.params = params
        self.remote_sessions = []
        self.session = None

    def __repr__(self):
        return f"<vm {self.name}>"


class StubEnv:
    def __init__(self):
        self.vms = {}

    def get_vm(self, name):
        return self.vms.get(name)

    def create_vm(self, vm_type, target, name, params, bindir):
        self.vms[name] = StubVM(name, params)
        return self.vms[name]


# ---------------------------------------------------------------------------
# generator


def _mask(prefix):
    return str(ipaddress.ip_network(f"0.0.0.0/{prefix}").netmask)


_first_octet = st.integers(1, 223)
_rest_bits = st.integers(0, 2 ** 24 - 1)
_modes = st.sampled_from(["random", "near", "near", "fresh"])
_one_in_three = st.sampled_from([True, False, False])
_one_in_six = st.sampled_from([True] + [False] * 5)
_one_in_twelve = st.sampled_from([True] + [False] * 11)
_nic_lists = st.lists(st.sampled_from(NICS), min_size=1, max_size=3, unique=True)


@st.composite
def _subnet_address(draw, prefix, previous):
    """A network of the given prefix length that is disjoint from all previous ones.
    Returns (network, relation, replaced) where replaced counts overlapping candidates."""
    used_octets = {int(n.network_address) >> 24 for n in previous}
    mode = draw(_modes) if previous else "random"
    candidate = None
    if mode == "random":
        first = draw(_first_octet)
        rest = draw(_rest_bits)
        value = ((first << 24) | rest) >> (32 - prefix) << (32 - prefix)
        candidate = ipaddress.ip_network((value, prefix))
    elif mode == "near":
        other = draw(st.sampled_from(previous))
        q = min(prefix, other.prefixlen)
        block = (int(other.network_address) >> (32 - q)) ^ 1  # sibling of the supernet of length q
        fill = draw(st.integers(0, 2 ** (prefix - q) - 1)) if prefix > q else 0
        value = ((block << (prefix - q)) | fill) << (32 - prefix)
        candidate = ipaddress.ip_network((value, prefix))
    replaced = 0
    if candidate is not None:
        first = int(candidate.network_address) >> 24
        if not 1 <= first <= 223 or any(candidate.overlaps(n) for n in previous):
            candidate = None
            replaced = 1
    if candidate is None:
        first = draw(_first_octet)
        while first in used_octets:
            first = first % 223 + 1
        rest = draw(_rest_bits)
        value = ((first << 24) | rest) >> (32 - prefix) << (32 - prefix)
        candidate = ipaddress.ip_network((value, prefix))
        mode = "fresh"
    return candidate, mode, replaced


@st.composite
def configs(draw, min_vms=1, allow_misconfig=True, roomy=False):
    want_misconfig = allow_misconfig and draw(st.integers(0, 99)) < 10
    nvms = draw(st.sampled_from([n for n in (1, 2, 2, 3, 3, 4, 4) if n >= min_vms]))
    vms = []
    for v in range(nvms):
        vms.append({"name": f"vm{v + 1}", "nics": [{"nic": n} for n in draw(_nic_lists)]})
    ifaces = [(vm, nic) for vm in vms for nic in vm["nics"]]
    ngroups = draw(st.sampled_from(list(range(1, min(len(ifaces), 5) + 1))))
    style = draw(st.sampled_from(["free", "free", "by-nic"]))
    any_group = st.sampled_from(list(range(ngroups)))
    groups = {}
    for vm, nic in ifaces:
        if style == "by-nic" and not draw(_one_in_three):
            gid = NICS.index(nic["nic"]) % ngroups
        else:
            gid = draw(any_group)
        groups.setdefault(gid, []).append(nic)
    subnets, networks, replaced = [], [], 0
    for index, gid in enumerate(sorted(groups)):
        members = groups[gid]
        with_host = draw(_one_in_three)
        need = len(members) + (1 if with_host else 0)
        pmax = max(p for p in range(8, 31) if 2 ** (32 - p) - 2 >= need + 1)
        prefix = draw(st.one_of(st.sampled_from([8, 16, 24]), st.integers(8, pmax), st.integers(pmax - 6, pmax)))
        network, relation, skipped = draw(_subnet_address(prefix, networks))
        replaced += skipped
        networks.append(network)
        usable = network.num_addresses - 2
        default_range = prefix <= 24 and draw(_one_in_six)
        if default_range:
            start, length = 100, 101
        else:
            max_len = usable - need
            length = draw(st.one_of(st.integers(1, min(max_len, 48 if roomy else 6)), st.integers(1, min(max_len, 48)),
                                    st.integers(1, min(max_len, 260))))
            hi = usable - length + 1
            start = draw(st.one_of(st.integers(1, min(hi, 300)), st.integers(1, hi)))
        outside = usable - length  # number of host offsets that are not in the range
        if outside <= 64:
            remaining = list(range(outside))
            picks = [remaining.pop(draw(st.integers(0, len(remaining) - 1))) for _ in range(need)]
        else:
            picks = draw(st.lists(st.one_of(st.integers(0, 30), st.integers(0, outside - 1)),
                                  min_size=need, max_size=need, unique=True))
        offsets = [j + 1 if j + 1 < start else j + 1 + length for j in picks]
        base = int(network.network_address)
        for nic, offset in zip(members, offsets):
            nic["ip"] = str(ipaddress.ip_address(base + offset))
            nic["netmask"] = str(network.netmask)
            nic["subnet"] = index
        subnets.append({
            "cidr": str(network),
            "range": [start, start + length - 1],
            "explicit_range": not default_range,
            "host": str(ipaddress.ip_address(base + offsets[-1])) if with_host else None,
            "netdst": f"virbr{index}",
            "relation": relation,
        })
    for v, vm in enumerate(vms):
        for nic in vm["nics"]:
            nic["mac"] = "02:00:00:00:%02x:%02x" % (v + 1, NICS.index(nic["nic"]))
    config = {"vms": vms, "subnets": subnets, "precreate": draw(st.booleans()), "expect": "ok",
              "replaced_candidates": replaced}
    # the documented misconfiguration: the interface integrated last lies in a subnet that already has a
    # netconfig (from an interface integrated earlier) but declares another netmask
    last = vms[-1]["nics"][-1]
    shared = sum(1 for vm, nic in ifaces if nic["subnet"] == last["subnet"]) >= 2
    if want_misconfig and shared:
        own = ipaddress.ip_network(subnets[last["subnet"]]["cidr"]).prefixlen
        other = draw(st.sampled_from([p for p in range(8, 31) if p != own]))
        last["netmask"] = _mask(other)
        config["expect"] = "IndexError"
    return config


abstract_ops = st.lists(
    st.one_of(
        st.tuples(st.just("alloc"), st.integers(0, 7)),
        st.tuples(st.just("drain"), st.integers(0, 7)),
        st.tuples(st.just("reattach"), st.integers(0, 40), st.integers(0, 40)),
        st.tuples(st.just("reattach"), st.integers(0, 40), st.integers(0, 40)),
        st.tuples(st.just("translate"), st.integers(0, 7), st.integers(0, 2 ** 24), st.integers(1 << 24, (224 << 24) - 1)),
    ).map(list),
    max_size=6,
)


@st.composite
def plain_cases(draw):
    return {"config": draw(configs()), "ops": draw(abstract_ops)}


@st.composite
def own_subnet_reattach_cases(draw):
    """Part D: a nic that holds the address the range hands out next is reattached inside its own subnet.

    This is the one place where a static address inside the DHCP range is generated: the reattachment is the first
    allocation from that range, so the unchanged code (detach, allocate, attach) gives the nic its own address back
    and no address is ever used twice; further allocations and a drain follow.
    """
    prefix = draw(st.sampled_from([8, 16, 20, 24, 24, 26, 28]))
    usable = 2 ** (32 - prefix) - 2
    length = draw(st.integers(1, min(usable - 2, 12)))
    start = draw(st.integers(2, min(usable - length, 300)))
    base = int(ipaddress.ip_address(draw(st.sampled_from(["10.0.0.0", "172.16.0.0", "192.168.0.0"]))))
    network = ipaddress.ip_network((base, prefix), strict=False)
    client_nic, server_nic = draw(st.sampled_from(NICS)), draw(st.sampled_from(NICS))
    client = {"nic": client_nic, "ip": str(network.network_address + start), "netmask": str(network.netmask), "subnet": 0,
              "mac": "02:00:00:00:01:%02x" % NICS.index(client_nic)}
    server = {"nic": server_nic, "ip": str(network.network_address + 1), "netmask": str(network.netmask), "subnet": 0,
              "mac": "02:00:00:00:02:%02x" % NICS.index(server_nic)}
    config = {"vms": [{"name": "vm1", "nics": [client]}, {"name": "vm2", "nics": [server]}],
              "subnets": [{"cidr": str(network), "range": [start, start + length - 1], "explicit_range": True, "host": None,
                           "netdst": "virbr0", "relation": "fresh"}],
              "precreate": draw(st.booleans()), "expect": "ok", "replaced_candidates": 0}
    steps = [["reattach", "vm1." + client_nic, "vm2." + server_nic]]
    for _ in range(draw(st.integers(0, 3))):
        steps.append([draw(st.sampled_from(["alloc", "alloc", "drain"])), 0])
    return {"config": config, "steps": steps, "part": "D"}


# ---------------------------------------------------------------------------
# executor + reference model


def parse_ip(text, what, case):
    """Parse an address produced by the code under test."""
    try:
        return ipaddress.IPv4Address(text)
    except (ipaddress.AddressValueError, TypeError, ValueError) as error:
        raise Violation({"oracle": "arithmetic", "kind": "unparsable-address", "what": what},
                        f"{what}: {text!r} is not an IPv4 address ({error})", case)


class Net:
    """A real VMNetwork next to a reference model of it."""

    def __init__(self, impl, config):
        self.impl = impl
        self.config = config
        self.steps = []
        self.net = None
        self.env = None
        self.networks = [ipaddress.ip_network(s["cidr"]) for s in config["subnets"]]
        self.ranges = [list(range(s["range"][0], s["range"][1] + 1)) for s in config["subnets"]]
        self.taken = [set() for _ in config["subnets"]]
        self.ifaces = {}  # "vm.nic" -> {"ip": str, "subnet": index}
        for vm in config["vms"]:
            for nic in vm["nics"]:
                self.ifaces[f"{vm['name']}.{nic['nic']}"] = {"ip": nic["ip"], "subnet": nic["subnet"]}
        self.reattached = 0

    # -- case as saved for replay
    def case(self):
        return {"config": self.config, "steps": [list(s) for s in self.steps]}

    def violation(self, oracle, kind, detail, **more):
        sig = {"oracle": oracle, "kind": kind}
        sig.update(more)
        return Violation(sig, detail, self.case())

    # -- construction
    def params(self):
        VMNetwork, VMNetconfig, Params = self.impl
        params = Params()
        params["vms"] = " ".join(vm["name"] for vm in self.config["vms"])
        params["nic_roles"] = "host_nic internet_nic lan_nic"
        for nic, role in ROLES.items():
            params[role] = nic
        params["vm_type"] = "qemu"
        for vm in self.config["vms"]:
            name = vm["name"]
            params[f"nics_{name}"] = " ".join(nic["nic"] for nic in vm["nics"])
            for nic in vm["nics"]:
                subnet = self.config["subnets"][nic["subnet"]]
                tail = f"{nic['nic']}_{name}"
                params[f"mac_{tail}"] = nic["mac"]
                params[f"ip_{tail}"] = nic["ip"]
                params[f"netmask_{tail}"] = nic["netmask"]
                params[f"netdst_{tail}"] = subnet["netdst"]
                if subnet["explicit_range"]:
                    params[f"range_{tail}"] = "%d-%d" % tuple(subnet["range"])
                if subnet["host"] is not None:
                    params[f"host_{tail}"] = subnet["host"]
                    params[f"ip_provider_{tail}"] = subnet["host"]
        return params

    def build(self):
        """Construct the network; returns False when the documented IndexError was raised as expected."""
        VMNetwork, VMNetconfig, Params = self.impl
        params = self.params()
        self.env = StubEnv()
        if self.config["precreate"]:
            for vm in self.config["vms"]:
                self.env.create_vm("qemu", None, vm["name"], params.object_params(vm["name"]), "")
        expect_error = self.config["expect"] == "IndexError"
        try:
            net = VMNetwork(params, self.env)
        except IndexError as error:
            if expect_error:
                return False
            raise self.violation("construction", "raises", f"VMNetwork() raised {error!r} for a consistent description",
                                 error="IndexError")
        except Exception as error:
            raise self.violation("construction", "raises", f"VMNetwork() raised {error!r}", error=type(error).__name__)
        if expect_error:
            raise self.violation("construction", "misconfiguration-accepted",
                                 "an interface inside an existing subnet but with a different netmask was integrated "
                                 "without the documented IndexError")
        self.net = net
        return True

    # -- the registry invariant
    def check(self, where):
        net = self.net
        if sorted(net.interfaces) != sorted(self.ifaces):
            raise self.violation("registry", "interface-keys",
                                 f"{where}: interfaces {sorted(net.interfaces)} != described {sorted(self.ifaces)}")
        for key, netconfig in net.netconfigs.items():
            if key != netconfig.net_ip:
                raise self.violation("registry", "netconfig-key",
                                     f"{where}: netconfig {netconfig} registered under {key!r}")
        listed = [iface for nc in net.netconfigs.values() for iface in nc.interfaces.values()]
        known = {id(iface) for iface in net.interfaces.values()}
        for netconfig in net.netconfigs.values():
            for ip, iface in netconfig.interfaces.items():
                if id(iface) not in known:
                    raise self.violation("registry", "stale-entry",
                                         f"{where}: {netconfig} lists {iface} which is no interface of the network")
                if iface.ip != ip:
                    raise self.violation("registry", "listed-under-other-ip",
                                         f"{where}: {netconfig} lists {iface} under {ip}")
        seen_ips = {}
        for ikey in sorted(net.interfaces):
            iface = net.interfaces[ikey]
            model = self.ifaces[ikey]
            vm_name, nic_name = ikey.split(".")
            node = net.nodes.get(vm_name)
            if node is None or node.interfaces.get(nic_name) is not iface or iface.node is not node:
                raise self.violation("registry", "node-link", f"{where}: {ikey} is not linked with its node")
            count = sum(1 for other in listed if other is iface)
            if count != 1:
                raise self.violation("registry", "in-no-netconfig" if count == 0 else "in-several-netconfigs",
                                     f"{where}: {ikey} ({iface.ip}) is listed in {count} netconfigs\n{net!r}")
            holder = [nc for nc in net.netconfigs.values() if any(i is iface for i in nc.interfaces.values())][0]
            if iface.netconfig is not holder:
                raise self.violation("registry", "back-reference",
                                     f"{where}: {ikey} points to {iface.netconfig} but is listed in {holder}")
            if holder.interfaces.get(iface.ip) is not iface:
                raise self.violation("registry", "not-listed-under-own-ip",
                                     f"{where}: {holder} does not list {ikey} under {iface.ip}")
            ip = parse_ip(iface.ip, "interface ip", self.case())
            try:
                network = ipaddress.ip_network(f"{holder.net_ip}/{holder.netmask}", strict=False)
            except ValueError as error:
                raise self.violation("registry", "netconfig-unparsable", f"{where}: {holder}: {error}")
            if str(network.network_address) != holder.net_ip:
                raise self.violation("registry", "netconfig-address-not-network",
                                     f"{where}: {holder} has host bits set for its netmask")
            if ip not in network:
                raise self.violation("registry", "ip-outside-subnet",
                                     f"{where}: {ikey} has {iface.ip} but is listed in {network}")
            if iface.ip != model["ip"]:
                raise self.violation("registry", "ip-changed",
                                     f"{where}: {ikey} has {iface.ip}, expected {model['ip']}")
            if network != self.networks[model["subnet"]]:
                raise self.violation("registry", "wrong-subnet",
                                     f"{where}: {ikey} ({iface.ip}/{self.networks[model['subnet']].prefixlen}) is listed "
                                     f"in {network}, expected {self.networks[model['subnet']]}")
            if iface.ip in seen_ips:
                raise self.violation("registry", "duplicate-ip",
                                     f"{where}: {ikey} and {seen_ips[iface.ip]} both have {iface.ip}")
            seen_ips[iface.ip] = ikey

    def check_masks(self):
        """Netmask <-> prefix length of every constructed netconfig against ipaddress."""
        VMNetwork, VMNetconfig, Params = self.impl
        for index, network in enumerate(self.networks):
            netconfig = self.netconfig(index)
            if netconfig.netmask != str(network.netmask) or netconfig.mask_bit != str(network.prefixlen):
                raise self.violation("arithmetic", "mask-bit",
                                     f"{network}: netmask {netconfig.netmask!r}, mask_bit {netconfig.mask_bit!r}")
            check_mask_round_trip(VMNetconfig, str(network.network_address + 1), network.prefixlen, self.case())

    def members(self, index):
        return sorted(key for key, model in self.ifaces.items() if model["subnet"] == index)

    def netconfig(self, index):
        """The netconfig of a subnet the way a caller reaches it: through one of its interfaces
        (the invariant check has established that this is the one registered under the network address)."""
        members = self.members(index)
        if not members:
            raise AssertionError("harness: operations on a subnet without interfaces are not generated")
        return self.net.interfaces[members[0]].netconfig

    def populated(self):
        return [i for i in range(len(self.networks)) if self.members(i)]

    def free(self, index):
        return [o for o in self.ranges[index] if o not in self.taken[index]]

    def account(self, index, address, what):
        """An address that the code took from the range of subnet ``index``."""
        network = self.networks[index]
        ip = parse_ip(address, what, self.case())
        offset = int(ip) - int(network.network_address)
        if ip not in network:
            raise self.violation("allocation", "outside-subnet", f"{what}: {address} is not in {network}")
        if offset in self.taken[index]:
            raise self.violation("allocation", "handed-out-twice", f"{what}: {address} of {network} was handed out before")
        if offset not in self.ranges[index]:
            lo, hi = self.ranges[index][0], self.ranges[index][-1]
            raise self.violation("allocation", "outside-range",
                                 f"{what}: {address} (offset {offset}) is outside the range {lo}-{hi} of {network}")
        self.taken[index].add(offset)

    # -- operations
    def alloc(self, index):
        self.steps.append(["alloc", index])
        return self._alloc(index)

    def _alloc(self, index):
        netconfig = self.netconfig(index)
        free = self.free(index)
        try:
            address = netconfig.get_allocatable_address()
        except IndexError as error:
            if free:
                raise self.violation("allocation", "premature-exhaustion",
                                     f"{self.networks[index]}: IndexError({error}) with {len(free)} of "
                                     f"{len(self.ranges[index])} addresses never handed out")
            return None
        except Exception as error:
            raise self.violation("allocation", "raises", f"get_allocatable_address raised {error!r}",
                                 error=type(error).__name__)
        if not free:
            raise self.violation("allocation", "exhaustion-not-reported",
                                 f"{self.networks[index]}: returned {address!r} after all {len(self.ranges[index])} "
                                 "addresses of the range had been handed out")
        self.account(index, address, "get_allocatable_address")
        return address

    def drain(self, index):
        self.steps.append(["drain", index])
        for _ in range(len(self.free(index))):
            self._alloc(index)
        # exhaustion has to be reported now, and again when asked again (_alloc raises Violation otherwise)
        self._alloc(index)
        self._alloc(index)

    def reattach_choices(self):
        """(clients, servers-by-client-vm) that keep within the documented use."""
        clients = sorted(self.ifaces)
        servers = {}
        for key in clients:
            if self.free(self.ifaces[key]["subnet"]):
                servers.setdefault(key.split(".")[0], []).append(key)
        return clients, servers

    def reattach(self, client_key, server_key):
        self.steps.append(["reattach", client_key, server_key])
        cvm, cnic = client_key.split(".")
        svm, snic = server_key.split(".")
        target = self.ifaces[server_key]["subnet"]
        if not self.free(target):
            raise AssertionError("harness: reattach towards an exhausted range is excluded by construction")
        try:
            self.net.reattach_interface(self.env.vms[cvm], self.env.vms[svm],
                                        client_nic=ROLES[cnic], server_nic=ROLES[snic])
        except Exception as error:
            raise self.violation("reattach", "raises",
                                 f"reattach_interface({client_key} -> {server_key}) raised {error!r}",
                                 error=type(error).__name__)
        iface = self.net.interfaces.get(client_key)
        if iface is None:
            raise self.violation("registry", "interface-keys", f"{client_key} vanished from the network")
        self.account(target, iface.ip, "reattach_interface")
        self.ifaces[client_key] = {"ip": iface.ip, "subnet": target}
        self.reattached += 1

    def translate(self, index, offset, nat_ip):
        self.steps.append(["translate", index, offset, nat_ip])
        network = self.networks[index]
        netconfig = self.netconfig(index)
        source = str(network.network_address + offset)
        target = ipaddress.ip_network(f"{nat_ip}/{network.prefixlen}", strict=False)
        expected = target.network_address + offset
        try:
            got = netconfig.translate_address(source, nat_ip)
        except Exception as error:
            raise self.violation("arithmetic", "translate-raises",
                                 f"translate_address({source}, {nat_ip}) in {network} raised {error!r}",
                                 error=type(error).__name__)
        got_ip = parse_ip(got, "translate_address", self.case())
        if got_ip != expected:
            kind = "outside-target-subnet" if got_ip not in target else "host-offset-changed"
            raise self.violation("arithmetic", "translate-" + kind,
                                 f"translate_address({source}, {nat_ip}) in {network} gave {got}, expected {expected} "
                                 f"(offset {offset} in {target})")

    def run_step(self, step):
        if step[0] == "alloc":
            self.alloc(step[1])
        elif step[0] == "drain":
            self.drain(step[1])
        elif step[0] == "reattach":
            self.reattach(step[1], step[2])
        elif step[0] == "translate":
            self.translate(step[1], step[2], step[3])
        else:
            raise AssertionError(f"harness: unknown step {step!r}")
        self.check("after " + step[0])


def check_mask_round_trip(VMNetconfig, address, prefix, case):
    mask = _mask(prefix)
    netconfig = VMNetconfig()
    netconfig.net_ip = address
    try:
        netconfig.mask_bit = str(prefix)
        from_bit = netconfig.netmask
        back = netconfig.mask_bit
        other = VMNetconfig()
        other.net_ip = address
        other.netmask = mask
        from_mask = other.mask_bit
    except Exception as error:
        raise Violation({"oracle": "arithmetic", "kind": "mask-bit-raises", "error": type(error).__name__},
                        f"prefix {prefix} / netmask {mask}: {error!r}", case)
    if from_bit != mask or back != str(prefix) or from_mask != str(prefix):
        raise Violation({"oracle": "arithmetic", "kind": "mask-bit"},
                        f"prefix {prefix}: mask_bit={prefix} gives netmask {from_bit!r} (ipaddress: {mask}) and reads "
                        f"back {back!r}; netmask={mask} gives mask_bit {from_mask!r}", case)


# ---------------------------------------------------------------------------
# part A body


def resolve(net, op):
    """Turn an abstract operation into a concrete step for the current model state (None = not applicable)."""
    if op[0] in ("alloc", "drain", "translate"):
        populated = net.populated()
        index = populated[op[1] % len(populated)]
        if op[0] != "translate":
            return [op[0], index]
        return ["translate", index, op[2] % net.networks[index].num_addresses, str(ipaddress.ip_address(op[3]))]
    clients, servers = net.reattach_choices()
    client = clients[op[1] % len(clients)]
    eligible = [s for vm, keys in sorted(servers.items()) if vm != client.split(".")[0] for s in keys]
    if not eligible:
        return None
    return ["reattach", client, eligible[op[2] % len(eligible)]]


def describe(config):
    labels = [f"vms={len(config['vms'])}"]
    nifaces = sum(len(vm["nics"]) for vm in config["vms"])
    labels.append("ifaces=%s" % ("1" if nifaces == 1 else "2-4" if nifaces <= 4 else "5-8" if nifaces <= 8 else "9-12"))
    labels.append(f"subnets={len(config['subnets'])}")
    owners = {}
    for vm in config["vms"]:
        for nic in vm["nics"]:
            owners.setdefault(nic["subnet"], set()).add(vm["name"])
    shared = any(len(v) >= 2 for v in owners.values())
    if shared:
        labels.append("subnet-shared-by-vms")
    if any(s["relation"] == "near" for s in config["subnets"]):
        labels.append("neighbouring-subnets")
    if any(not s["explicit_range"] for s in config["subnets"]):
        labels.append("default-range")
    if any(s["host"] for s in config["subnets"]):
        labels.append("host-address")
    for s in config["subnets"]:
        p = int(s["cidr"].split("/")[1])
        labels.append("prefix=" + ("8-15" if p < 16 else "16-23" if p < 24 else "24-27" if p < 28 else "28-30"))
    if config["expect"] != "ok":
        labels.append("misconfigured-netmask")
    nontrivial = (shared and len(config["subnets"]) >= 2) or config["expect"] != "ok"
    return ["A:" + label for label in sorted(set(labels))], nontrivial


def run_plain(ctx, impl, case):
    """case = {"config", "ops"} (abstract) or {"config", "steps"} (concrete, replay/regressions)."""
    config = case["config"]
    net = Net(impl, config)
    labels, nontrivial = describe(config)
    done = {"reattach": 0, "skipped": 0}
    if net.build():
        net.check("after construction")
        net.check_masks()
        if "steps" in case:
            for step in case["steps"]:
                net.run_step(step)
        else:
            for op in case["ops"]:
                step = resolve(net, op)
                if step is None:
                    done["skipped"] += 1
                    continue
                net.run_step(step)
        done["reattach"] = net.reattached
    if done["reattach"]:
        labels.append("A:with-reattach")
    if any(not net.free(i) for i in range(len(net.networks))):
        labels.append("A:range-exhausted")
    if nontrivial:
        labels.append("A:nontrivial")
    return labels, nontrivial, done["skipped"]


# ---------------------------------------------------------------------------
# part B


def make_machine(impl, ctx):
    class NetworkMachine(RuleBasedStateMachine):
        excluded_keys = set()
        last_violation = None

        def __init__(self):
            super().__init__()
            self.model = None
            self.poisoned = False
            self.drained = False
            self.avoided = 0

        def guarded(self, function, *args):
            if self.poisoned:
                return
            try:
                function(*args)
            except Violation as violation:
                self.poisoned = True
                if violation.key in type(self).excluded_keys or ctx.is_known(violation):
                    if ctx.is_known(violation):
                        ctx.record_violation(violation, violation.case)
                    ctx.excluded += 1
                    return
                type(self).last_violation = (violation, violation.case)
                raise

        @initialize(config=configs(min_vms=2, allow_misconfig=False, roomy=True))
        def construct(self, config):
            self.model = Net(impl, config)

            def build():
                self.model.build()
                self.model.check("after construction")

            self.guarded(build)

        @rule(data=st.data())
        def allocate(self, data):
            if self.poisoned:
                return
            index = data.draw(st.sampled_from(self.model.populated()))

            def step():
                self.model.run_step(["alloc", index])

            self.guarded(step)

        @rule(data=st.data())
        def drain(self, data):
            if self.poisoned:
                return
            index = data.draw(st.sampled_from(self.model.populated()))
            if self.drained or len(self.model.free(index)) > 64:
                return
            self.drained = True
            self.guarded(lambda: self.model.run_step(["drain", index]))

        @rule(data=st.data())
        def reattach_again(self, data):  # a second entry so that reattachments make up 2/5 of the steps
            self.reattach(data)

        @rule(data=st.data())
        def reattach(self, data):
            if self.poisoned:
                return
            clients, servers = self.model.reattach_choices()
            client = data.draw(st.sampled_from(clients))
            eligible = [s for vm, keys in sorted(servers.items()) if vm != client.split(".")[0] for s in keys]
            if not eligible:
                self.avoided += 1
                return
            server = data.draw(st.sampled_from(eligible))
            self.guarded(lambda: self.model.run_step(["reattach", client, server]))

        @rule(data=st.data(), offset=st.integers(0, 2 ** 24), nat=st.integers(1 << 24, (224 << 24) - 1))
        def translate(self, data, offset, nat):
            if self.poisoned:
                return
            index = data.draw(st.sampled_from(self.model.populated()))
            step = ["translate", index, offset % self.model.networks[index].num_addresses, str(ipaddress.ip_address(nat))]
            self.guarded(lambda: self.model.run_step(step))

        def teardown(self):
            if self.model is None or self.model.net is None:
                return
            model = self.model
            most = max(len(t) for t in model.taken)
            labels = ["B:machine", "B:steps=%s" % ("0-5" if len(model.steps) <= 5 else "6-15" if len(model.steps) <= 15 else ">15")]
            if model.reattached:
                labels.append("B:reattach>=1")
            if model.reattached >= 3:
                labels.append("B:reattach>=3")
            if any(not model.free(i) for i in range(len(model.networks))):
                labels.append("B:range-exhausted")
            moved_twice = len([s for s in model.steps if s[0] == "reattach"]) > len({s[1] for s in model.steps if s[0] == "reattach"})
            if moved_twice:
                labels.append("B:same-interface-moved-twice")
            nontrivial = model.reattached >= 1 and most >= 2
            if nontrivial:
                labels.append("B:nontrivial")
            ctx.extra["excluded_reattach_to_exhausted"] = ctx.extra.get("excluded_reattach_to_exhausted", 0) + self.avoided
            ctx.case(model.case(), nontrivial, labels)

    return NetworkMachine


# ---------------------------------------------------------------------------


def _nic(nic, ip, prefix, subnet, mac):
    return {"nic": nic, "ip": ip, "netmask": _mask(prefix), "subnet": subnet, "mac": mac}


def _subnet(cidr, lo, hi, index, explicit=True, host=None):
    return {"cidr": cidr, "range": [lo, hi], "explicit_range": explicit, "host": host,
            "netdst": f"virbr{index}", "relation": "fresh"}


REGRESSIONS = [
    # the two vms of the selftest, default ranges, the reattachment of test_reattach_interface and a second one
    {"config": {"vms": [{"name": "vm1", "nics": [_nic("b1", "10.1.0.1", 16, 0, "02:00:00:00:01:01"),
                                                 _nic("b2", "172.17.0.1", 16, 1, "02:00:00:00:01:02")]},
                        {"name": "vm2", "nics": [_nic("b1", "10.2.0.1", 16, 2, "02:00:00:00:02:01"),
                                                 _nic("b2", "172.18.0.1", 16, 3, "02:00:00:00:02:02")]}],
                "subnets": [_subnet("10.1.0.0/16", 100, 200, 0, False), _subnet("172.17.0.0/16", 100, 200, 1, False),
                            _subnet("10.2.0.0/16", 100, 200, 2, False), _subnet("172.18.0.0/16", 100, 200, 3, False)],
                "precreate": True, "expect": "ok", "replaced_candidates": 0},
     "steps": [["reattach", "vm1.b1", "vm2.b2"], ["reattach", "vm1.b1", "vm2.b2"], ["alloc", 3],
               ["translate", 1, 257, "192.168.77.9"], ["reattach", "vm2.b1", "vm1.b2"], ["drain", 1]]},
    # the sample suite: three vms sharing nothing but the shape, /24 host nets next to each other
    {"config": {"vms": [{"name": "vm1", "nics": [_nic("b0", "192.168.1.1", 24, 0, "02:00:00:00:01:00"),
                                                 _nic("b1", "10.1.0.1", 16, 1, "02:00:00:00:01:01")]},
                        {"name": "vm2", "nics": [_nic("b0", "192.168.2.1", 24, 2, "02:00:00:00:02:00"),
                                                 _nic("b1", "10.1.0.2", 16, 1, "02:00:00:00:02:01")]},
                        {"name": "vm3", "nics": [_nic("b0", "192.168.3.1", 24, 3, "02:00:00:00:03:00"),
                                                 _nic("b1", "10.1.0.3", 16, 1, "02:00:00:00:03:01")]}],
                "subnets": [_subnet("192.168.1.0/24", 100, 200, 0, False, "192.168.1.254"), _subnet("10.1.0.0/16", 300, 302, 1),
                            _subnet("192.168.2.0/24", 100, 200, 2, False, "192.168.2.254"),
                            _subnet("192.168.3.0/24", 10, 11, 3, True, "192.168.3.254")],
                "precreate": False, "expect": "ok", "replaced_candidates": 0},
     "steps": [["drain", 1], ["reattach", "vm1.b1", "vm3.b0"], ["reattach", "vm2.b1", "vm3.b0"], ["drain", 3],
               ["translate", 1, 65535, "172.16.200.200"]]},
    # smallest subnets: a /30 with a single address to hand out beside a /29 sibling
    {"config": {"vms": [{"name": "vm1", "nics": [_nic("b2", "10.0.0.1", 30, 0, "02:00:00:00:01:02")]},
                        {"name": "vm2", "nics": [_nic("b2", "10.0.0.9", 29, 1, "02:00:00:00:02:02"),
                                                 _nic("b0", "10.0.0.14", 29, 1, "02:00:00:00:02:00")]}],
                "subnets": [_subnet("10.0.0.0/30", 2, 2, 0), _subnet("10.0.0.8/29", 2, 5, 1)],
                "precreate": False, "expect": "ok", "replaced_candidates": 0},
     "steps": [["reattach", "vm2.b0", "vm1.b2"], ["alloc", 0], ["reattach", "vm1.b2", "vm2.b2"], ["drain", 1]]},
    # documented misconfiguration: second interface inside 10.1.0.0/16 but declared with /24
    {"config": {"vms": [{"name": "vm1", "nics": [_nic("b1", "10.1.0.1", 16, 0, "02:00:00:00:01:01")]},
                        {"name": "vm2", "nics": [_nic("b1", "10.1.0.2", 24, 0, "02:00:00:00:02:01")]}],
                "subnets": [_subnet("10.1.0.0/16", 100, 200, 0, False)],
                "precreate": False, "expect": "IndexError", "replaced_candidates": 0},
     "steps": []},
    # a range that crosses octet boundaries in a /8
    {"config": {"vms": [{"name": "vm1", "nics": [_nic("b0", "77.0.0.1", 8, 0, "02:00:00:00:01:00")]},
                        {"name": "vm2", "nics": [_nic("b0", "77.255.255.254", 8, 0, "02:00:00:00:02:00")]}],
                "subnets": [_subnet("77.0.0.0/8", 65530, 65540, 0)],
                "precreate": True, "expect": "ok", "replaced_candidates": 0},
     "steps": [["drain", 0], ["translate", 0, 16777215, "10.200.3.4"]]},
]


def run(ctx):
    impl = load()
    VMNetwork, VMNetconfig, Params = impl
    ctx.extra.setdefault("excluded_overlapping_candidates", 0)
    ctx.extra.setdefault("excluded_reattach_to_exhausted", 0)

    def body(case):
        labels, nontrivial, skipped = run_plain(ctx, impl, case)
        ctx.extra["excluded_overlapping_candidates"] += case["config"].get("replaced_candidates", 0)
        ctx.extra["excluded_reattach_to_exhausted"] += skipped
        ctx.case(case, nontrivial, labels)

    for case in (REGRESSIONS if ctx.shard == 0 else []):
        try:
            body(case)
        except Violation as violation:
            ctx.record_violation(violation, violation.case or case)

    # part C: every prefix length
    ctx.exhaustive_parts.append("C: netmask <-> prefix length for every prefix length 0..32")
    for prefix in ctx.my_slice(list(range(33))):
        case = {"mask_round_trip": prefix}
        try:
            check_mask_round_trip(VMNetconfig, "10.11.12.13", prefix, case)
        except Violation as violation:
            ctx.record_violation(violation, case)
        ctx.case(case, True, ["C:prefix-length"])

    ctx.hyp(plain_cases(), body, ctx.budget(2000, 140000), name="network")

    def body_own(case):
        labels, nontrivial, _ = run_plain(ctx, impl, case)
        ctx.case(case, True, [label for label in labels if "nontrivial" not in label] + ["D:reattach-within-own-subnet"])

    ctx.hyp(own_subnet_reattach_cases(), body_own, ctx.budget(160, 8000), name="own-subnet")
    ctx.machine(make_machine(impl, ctx), ctx.budget(1000, 60000), steps=25, name="history")


def replay(ctx, case):
    impl = load()
    if "mask_round_trip" in case:
        try:
            check_mask_round_trip(impl[1], "10.11.12.13", case["mask_round_trip"], case)
        except Violation as violation:
            return [violation]
        return []
    try:
        run_plain(ctx, impl, case)
    except Violation as violation:
        return [violation]
    return []
