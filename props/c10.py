"""C10 - retry, stop, replay and verdict rules are followed exactly.

Part T (exhaustive): TestNode.should_rerun on real parsed nodes with injected
results, against a reference written from the docstring.
Part R/I/P (hypothesis, E1 simulator): generated outcome sequences with retry
settings (R), invalid settings (I) and replayed previous jobs (P), judged on
the recorded event history.
"""

import copy
import itertools
import json
import os

from hypothesis import strategies as st

from vlib import e1, sim as simmod
from vlib.core import Violation, HarnessError, canon

LEVEL = "exploration"
EXHAUSTIVE = False
RULE = (
    "T: enumerated table max_tries 0..4 x recorded status sequences of length <=2 (quick) / <=3 (thorough) over the 8 "
    "statuses x rerun/stop subsets of size <=2 x {stateless leaf, stateful setup node} x {plain, replay}; every row is "
    "non-trivial. R: E1 cases with max_concurrent_tries=1, max_tries 1..4, rerun/stop sets and outcome sequences over "
    "all statuses + never reported, 1-3 workers; non-trivial when some test was retried or stopped early. I: invalid "
    "settings (negative / fractional / textual max_tries, unknown status names). P: replayed previous-job result "
    "files (written as results.json, loaded by the real loader) x initial pools. Distinct = canonical JSON."
)
ASSUMPTIONS = e1.ASSUMPTIONS + [
    "retry decisions are judged on the statuses as recorded in node.results, whose pairing with the executor's "
    "emitted results is checked separately (marker in logdir, documented PASS->WARN rewrite for slow runs)",
    "R/P use the default pool_scope and max_concurrent_tries=1 so that executions of one test are sequential",
]

ALL = ["fail", "error", "pass", "warn", "skip", "cancel", "interrupted", "unknown"]
OK = {"PASS": True, "WARN": True, "SKIP": True, "CANCEL": True, "FAIL": False, "ERROR": False, "INTERRUPTED": False}


# ---------------------------------------------------------------------------
# reference


def reference_rerun(statuses, max_tries, rerun, stop, replay=False):
    """From the docstring: rerun while tries remain, all statuses so far are rerun statuses, none is a stop status."""
    rerun = rerun or (["fail", "error", "warn"] if replay else ALL)
    if max_tries is None:
        max_tries = 2 if replay else 1
    if set(rerun) - set(ALL) or set(stop) - set(ALL) or max_tries < 0:
        return ValueError
    if set(statuses) - set(rerun):
        return False
    if set(stop) & set(statuses):
        return False
    if max_tries == 1:
        return False
    return max_tries - len(statuses) > 0


# ---------------------------------------------------------------------------
# part T


def table_rows(tier):
    lengths = [0, 1, 2] if tier == "quick" else [0, 1, 2, 3]
    sequences = [seq for n in lengths for seq in itertools.product(ALL, repeat=n)]
    subsets = [()] + [(a,) for a in ALL] + list(itertools.combinations(ALL, 2))
    if tier == "quick":
        subsets = [()] + [(a,) for a in ALL] + [c for i, c in enumerate(itertools.combinations(ALL, 2)) if i % 3 == 0]
    for kind in ("leaf", "setup"):
        for replay in (False, True):
            for max_tries in (None, 0, 1, 2, 3, 4):
                for rerun in subsets:
                    for stop in subsets:
                        for seq in sequences:
                            yield (kind, replay, max_tries, rerun, stop, seq)


def run_table(ctx):
    mods = simmod.setup()
    scenario = simmod.Scenario("normal&tutorial1", nets="net1")
    graph, swarms = simmod.build_graph(scenario)
    graph, swarms = copy.deepcopy((graph, swarms))
    mods["TestSwarm"].run_swarms = swarms
    worker = list(graph.workers.values())[0]
    nodes = {
        "leaf": [n for n in graph.nodes if "tutorial1" in n.params["name"] and not n.is_flat()][0],
        "setup": [n for n in graph.nodes if "customize" in n.params["name"] and "on_customize" not in n.params["name"]][0],
    }
    rows = table_rows(ctx.tier)
    count = 0
    for index, (kind, replay, max_tries, rerun, stop, seq) in enumerate(rows):
        if index % ctx.nshards != ctx.shard:
            continue
        node = nodes[kind]
        saved_results, saved_rerun = node.results, node.should_rerun
        saved = {k: node.params.get(k) for k in ("max_tries", "rerun_status", "stop_status", "replay")}
        try:
            for key, value in (("max_tries", max_tries), ("rerun_status", " ".join(rerun)), ("stop_status", " ".join(stop)),
                               ("replay", "job1" if replay else None)):
                if value is None or value == "":
                    if key in node.params:
                        del node.params[key]
                else:
                    node.params[key] = str(value)
            if replay and rerun:
                node.params["rerun_status"] = ",".join(rerun)
            node.results = [{"name": node.params["name"], "status": s.upper()} for s in seq]
            expected = reference_rerun(list(seq), max_tries, list(rerun), list(stop), replay)
            try:
                got = node.should_rerun(worker)
            except ValueError:
                got = ValueError
            except Exception as error:
                got = type(error)
            case = {"part": "table", "kind": kind, "replay": replay, "max_tries": max_tries, "rerun": list(rerun),
                    "stop": list(stop), "statuses": list(seq)}
            ctx.case(case, True, ["T:row", "T:" + kind] + (["T:replay"] if replay else []))
            count += 1
            if got is not expected and got != expected:
                ctx.record_violation(Violation(
                    {"oracle": "rerun-decision-table", "kind": kind, "expected": str(expected), "got": str(got)},
                    f"should_rerun with {case} returned {got}, the documented rule gives {expected}", case))
        finally:
            node.results, node.should_rerun = saved_results, saved_rerun
            for key, value in saved.items():
                if value is None:
                    if key in node.params:
                        del node.params[key]
                else:
                    node.params[key] = value
    return count


def replay_table(case):
    mods = simmod.setup()
    scenario = simmod.Scenario("normal&tutorial1", nets="net1")
    graph, swarms = simmod.build_graph(scenario)
    graph = copy.deepcopy(graph)
    worker = list(graph.workers.values())[0]
    name = "tutorial1" if case["kind"] == "leaf" else "automated.customize"
    node = [n for n in graph.nodes if name in n.params["name"] and not n.is_flat()][0]
    for key, value in (("max_tries", case["max_tries"]), ("rerun_status", (", " if False else " ").join(case["rerun"])),
                       ("stop_status", " ".join(case["stop"])), ("replay", "job1" if case["replay"] else None)):
        if value is None or value == "":
            if key in node.params:
                del node.params[key]
        else:
            node.params[key] = str(value)
    if case["replay"] and case["rerun"]:
        node.params["rerun_status"] = ",".join(case["rerun"])
    node.results = [{"name": node.params["name"], "status": s.upper()} for s in case["statuses"]]
    expected = reference_rerun(case["statuses"], case["max_tries"], case["rerun"], case["stop"], case["replay"])
    try:
        got = node.should_rerun(worker)
    except ValueError:
        got = ValueError
    if got is not expected and got != expected:
        return [Violation({"oracle": "rerun-decision-table", "kind": case["kind"], "expected": str(expected), "got": str(got)},
                          f"should_rerun returned {got}, documented rule gives {expected}", case)]
    return []


# ---------------------------------------------------------------------------
# parts R / I / P on the simulator

SCENARIOS = {
    "t1/w1": ("normal&tutorial1", "net1"),
    "t1/w2": ("normal&tutorial1", "net1 net2"),
    "t12/w2": ("normal&tutorial1,tutorial2", "net1 net2"),
    "t2l/w3": ("leaves&tutorial2", "net1 net2 net3"),
    "t12/serial": ("normal&tutorial1,tutorial2", "net0"),
    "t3/w2": ("normal&tutorial3", "net1 net2"),
    "t2l/c2": ("leaves&tutorial2", "cluster1.net6 cluster1.net7"),
    "t12/w2/lazy": ("normal&tutorial1,tutorial2", "net1 net2", True),
}


def scenarios():
    out = {}
    for name, spec in SCENARIOS.items():
        out[name] = simmod.Scenario(spec[0], dict(e1.DEFAULT_VMS), spec[1], lazy=len(spec) > 2)
    return out


STATUS_ALPHABET = ["PASS", "PASS", "PASS", "FAIL", "ERROR", "WARN", "SKIP", "CANCEL", "INTERRUPTED", "NEVER"]


@st.composite
def retry_cases(draw, scns):
    name = draw(st.sampled_from(sorted(scns)))
    scenario = scns[name]
    info = e1.scenario_info(scenario)
    run = {"test_timeout": draw(st.sampled_from([1, 10])), "max_concurrent_tries": 1}
    run["max_tries"] = draw(st.sampled_from([1, 2, 2, 3, 3, 4]))
    if draw(st.integers(0, 2)) == 0:
        run["rerun_status"] = " ".join(draw(st.lists(st.sampled_from(ALL), min_size=1, max_size=3, unique=True)))
    if draw(st.integers(0, 2)) == 0:
        run["stop_status"] = " ".join(draw(st.lists(st.sampled_from(ALL[:5]), min_size=1, max_size=2, unique=True)))
    n = draw(st.sampled_from([4, 8, 16]))
    case = {"part": "retry", "scenario_name": name, "scenario": scenario.to_json(), "run": run,
            "pools": draw(e1.pools(info, {"pool_modes": ["empty", "shared", "synced"]})),
            "durations": draw(st.lists(st.sampled_from(["0.01T", "0.05T", "0.1T", "0.3T"]), min_size=4, max_size=4)),
            "always_fail": {}}
    # a result that is never reported keeps its node occupied for the 300 s result wait, i.e. far beyond the test
    # timeout; with several workers the documented recovery then admits another worker, which is not a retry
    single = len(scenario.nets.split()) == 1
    alphabet = STATUS_ALPHABET if single else [s for s in STATUS_ALPHABET if s != "NEVER"]
    case["outcomes"] = draw(st.lists(st.sampled_from(alphabet), min_size=n, max_size=n))
    if draw(st.integers(0, 4)) == 0 and info["idents"]:
        case["always_fail"] = {draw(st.sampled_from(info["idents"])): draw(st.sampled_from(
            ["FAIL", "ERROR", "SKIP"] + (["NEVER"] if single else [])))}
    return case


INVALID = [("max_tries", "-1"), ("max_tries", "-32"), ("max_tries", "3.5"), ("max_tries", "hey"), ("max_tries", ""),
           ("rerun_status", "passed"), ("rerun_status", "fail broken"), ("stop_status", "invalid"),
           ("stop_status", "pass failed"), ("rerun_status", "FAIL")]


@st.composite
def invalid_cases(draw, scns):
    name = draw(st.sampled_from(sorted(scns)))
    scenario = scns[name]
    key, value = draw(st.sampled_from(INVALID))
    run = {"test_timeout": 1, "max_tries": draw(st.sampled_from([1, 2, 3]))}
    if draw(st.booleans()):
        run["rerun_status"] = "fail error"
    run[key] = value
    return {"part": "invalid", "scenario_name": name, "scenario": scenario.to_json(), "run": run,
            "pools": {"mode": "empty", "shared": [], "own": {}}, "durations": ["0.1T"],
            "outcomes": draw(st.lists(st.sampled_from(["PASS", "FAIL", "ERROR"]), min_size=4, max_size=4)), "always_fail": {}}


@st.composite
def replay_cases(draw, scns):
    name = draw(st.sampled_from(sorted(n for n in scns if "lazy" not in n)))
    scenario = scns[name]
    info = e1.scenario_info(scenario)
    names = info["names"]
    previous = []
    for ident in sorted(names):
        choice = draw(st.sampled_from(["none", "PASS", "PASS", "FAIL", "ERROR", "WARN", "SKIP"]))
        if choice == "none":
            continue
        source = draw(st.sampled_from(names[ident]))
        previous.append({"name": source, "status": choice, "time_elapsed": draw(st.sampled_from([0.2, 1, 5])),
                         "job": draw(st.integers(0, 1))})
    two_jobs = draw(st.sampled_from([False, False, True]))
    if not two_jobs:
        for entry in previous:
            entry["job"] = 0
    run = {"test_timeout": 10, "replay": "previous_job other_job" if two_jobs else "previous_job", "max_concurrent_tries": 1}
    if draw(st.booleans()):
        run["rerun_status"] = draw(st.sampled_from(["fail", "error", "pass", "warn", "skip"]))
    if draw(st.integers(0, 2)) == 0:
        run["max_tries"] = draw(st.sampled_from([2, 3]))
    return {"part": "replay", "scenario_name": name, "scenario": scenario.to_json(), "run": run,
            "pools": draw(e1.pools(info, {"pool_modes": ["shared", "shared", "synced", "empty"]})),
            "durations": ["0.05T", "0.1T"], "outcomes": ["PASS"], "always_fail": {}, "previous": previous}


def run_sim(case, scratch):
    """Run an E1 case, writing the replayed job's results.json first."""
    if case.get("previous") is not None:
        for index, job in enumerate(str(case["run"].get("replay", "previous_job")).split()):
            job_dir = os.path.join(scratch, job)
            os.makedirs(job_dir, exist_ok=True)
            tests = [{k: v for k, v in entry.items() if k != "job"} for entry in case["previous"]
                     if entry.get("job", 0) == index]
            with open(os.path.join(job_dir, "results.json"), "w") as handle:
                json.dump({"tests": tests}, handle)
    return e1.run_case(case, scratch)


def judge(sim, case):
    """All C10 oracles over one simulated run; yields violations."""
    run = case["run"]
    part = case["part"]
    if part == "invalid":
        if not isinstance(sim.error, ValueError):
            yield Violation({"oracle": "invalid-setting-accepted", "key": [k for k, v in e1_invalid_keys(run)][0]},
                            f"run with {run} ended with {sim.error!r} instead of ValueError\n" + e1.brief(sim), case)
        return
    if sim.error is not None:
        yield Violation({"oracle": "run-error", "error": type(sim.error).__name__},
                        f"{sim.error!r}\n" + e1.brief(sim), case)
        return
    replay = bool(run.get("replay"))
    rerun = str(run.get("rerun_status", "")).replace(",", " ").split()
    stop = str(run.get("stop_status", "")).split()
    max_tries = int(run["max_tries"]) if "max_tries" in run else None

    starts = sim.starts()
    # (b) identifiers are distinct per test name and every execution reads its own result
    seen = {}
    for start in starts:
        key = (start["name"], start["uid"])
        if key in seen:
            yield Violation({"oracle": "identifier-reused"},
                            f"{start['ident']} executed twice with the identifier {start['uid']} (t={seen[key]['t']} and t={start['t']})\n"
                            + e1.brief(sim), case)
        seen[key] = start
    ends = {e["start"]: e for e in sim.ends()}
    nodes = {}
    for node in sim.graph.nodes:
        if not node.is_flat() and not node.is_shared_root():
            nodes[node.params["name"]] = node
    previous_count = {}
    for name, node in nodes.items():
        previous_count[name] = len([r for r in node.results if "logdir" not in r and r.get("status") != "UNKNOWN"])
    for name, node in nodes.items():
        if node.is_object_root():
            continue  # failed configuration steps are recorded on the install node as tries of the creation
        own = [s for s in starts if s["name"] == name and s.get("node_type") != "shared_configure_install"]
        recorded = [r for r in node.results if "logdir" in r]
        emitted = [ends[s["i"]] for s in own if s["i"] in ends and ends[s["i"]]["reported"]]
        if [r["logdir"] for r in recorded] != [e["marker"] for e in emitted]:
            yield Violation({"oracle": "result-pairing"},
                            f"{node.params['shortname']}: recorded results {[r['logdir'] for r in recorded]} are not the ones "
                            f"emitted for its executions {[e['marker'] for e in emitted]}\n" + e1.brief(sim), case)
            continue
        passed_durations = [float(r["time_elapsed"]) for r in node.results if "logdir" not in r and r.get("status") == "PASS"
                            and "time_elapsed" in r]
        for record, end in zip(recorded, emitted):
            expected = end["status"]
            if expected == "PASS" and passed_durations and end["duration"] > 1.25 * max(passed_durations):
                expected = "WARN"
            if record["status"] != expected:
                yield Violation({"oracle": "recorded-status-differs", "emitted": end["status"], "recorded": record["status"]},
                                f"{node.params['shortname']}: emitted {end['status']} (duration {end['duration']}), recorded "
                                f"{record['status']}\n" + e1.brief(sim), case)
            if record["status"] == "PASS":
                passed_durations.append(float(record["time_elapsed"]))

    # (a) the sequence of executions of every test is the longest prefix the rule allows
    by_ident = {}
    for node in nodes.values():
        by_ident.setdefault(sim.identity(node), []).append(node)
    end_events = sim.ends()
    for ident, group in sorted(by_ident.items()):
        if any(len(n.cloned_nodes) for n in group) or any(n.is_object_root() for n in group):
            continue
        executions = [s for s in starts if s["ident"] == ident]
        if not executions:
            continue
        stateful = bool(executions[0]["sets"])
        kind = "stateful" if stateful else "stateless"
        # results replayed from the previous job are attached to every worker's copy of the test: count each once
        previous = sorted({(r["name"], r["status"].lower(), str(r["time_elapsed"])) for n in group for r in n.results
                           if "logdir" not in r and "time_elapsed" in r})
        previous = [status for _, status, _ in previous]
        # recorded status of every execution, in the order the results were recorded
        recorded = {}
        for node in group:
            for record in node.results:
                if "logdir" in record:
                    recorded[record["logdir"]] = record["status"].lower()
        finished = []
        for execution in executions:
            finish = ends.get(execution["i"])
            if finish is None:
                continue
            status = recorded.get(finish["marker"], "error") if finish["reported"] else "error"
            finished.append((finish["i"], execution["i"], status))
        for k, execution in enumerate(executions):
            if k == 0:
                continue
            before = previous + [status for end_i, start_i, status in finished if end_i < execution["i"]]
            allowed = reference_rerun(before, max_tries, rerun, stop, replay)
            if allowed is False:
                yield Violation({"oracle": "retry-not-allowed", "kind": kind},
                                f"{ident}: execution #{k + 1} started although the statuses so far {before} with "
                                f"max_tries={max_tries} rerun={rerun or 'all'} stop={stop} end the retries\n" + e1.brief(sim), case)
                break
        final = previous + [status for _, _, status in finished]
        if reference_rerun(final, max_tries, rerun, stop, replay) is True:
            yield Violation({"oracle": "retry-missing", "kind": kind},
                            f"{ident}: recorded statuses {final} with max_tries={max_tries} rerun={rerun or 'all'} stop={stop}: "
                            f"another try was due but the run ended\n" + e1.brief(sim), case)

    # (d) replay rule
    if replay:
        acceptable_default = ["fail", "error", "warn"]
        rerun_set = rerun or acceptable_default
        # previous results as given in the replayed jobs' files (not as the code attached them)
        given = {}
        name_to_ident = {name: ident for ident, names in (sim.info.get("names") or {}).items() for name in names}
        for entry in case.get("previous") or []:
            if entry["name"] in name_to_ident:
                given.setdefault(name_to_ident[entry["name"]], []).append(entry)
        for ident, group in sorted(by_ident.items()):
            previous = given.get(ident, [])
            executions = [s for s in starts if s["ident"] == ident]
            sets = [r for n in group[:1] for r in simmod.state_requests(n.params, "set") if r["state"] not in e1.ROOT_STATES]
            if any(n.is_object_root() for n in group):
                continue
            if previous and not set(r["status"].lower() for r in previous) & set(rerun_set):
                # acceptable previous result
                scans = [e for e in sim.events if e["kind"] == "door" and e["action"] == "check" and e.get("ident") == ident]
                missing = any(not r.get("present") for e in scans[:1] for r in e["requests"])
                if executions and not (sets and missing):
                    yield Violation({"oracle": "replay-reexecuted-acceptable", "kind": "stateful" if sets else "stateless"},
                                    f"{ident}: previous results {[r['status'] for r in previous]} are acceptable (rerun on {rerun_set}) "
                                    f"and no state it produces is missing, yet it was executed {len(executions)}x\n" + e1.brief(sim), case)
                # independent of whether a scan took place: the state is in no pool at all, yet a dependant started
                nowhere = [r for r in sets if tuple(simmod.state_key(r)) not in sim.initial_pools.shared
                           and not any(tuple(simmod.state_key(r)) in keys for keys in sim.initial_pools.own.values())]
                needed = [s for s in starts for g in s["gets"]
                          if any(tuple(g["key"]) == tuple(simmod.state_key(r)) for r in nowhere)]
                if nowhere and needed and not executions:
                    yield Violation({"oracle": "replay-missing-state-not-recreated"},
                                    f"{ident}: previous result {[r['status'] for r in previous]} acceptable but its state "
                                    f"{nowhere[0]['state']} is in no pool; it was not executed although {needed[0]['ident']} "
                                    f"needs it\n" + e1.brief(sim), case)
            elif not previous and not sets and not executions:
                yield Violation({"oracle": "replay-test-without-result-not-executed"},
                                f"{ident} has no previous result and was not executed\n" + e1.brief(sim), case)

    # (e) verdict
    by_name = {}
    for end in sim.ends():
        if end["reported"]:
            by_name.setdefault(end["name"], []).append(end["status"])
    expected_ok = all(any(OK[s] for s in statuses) for statuses in by_name.values())
    try:
        got_ok = sim.runner.all_results_ok()
    except Exception as error:
        yield Violation({"oracle": "verdict-raises", "error": type(error).__name__}, repr(error), case)
        return
    if got_ok != expected_ok:
        yield Violation({"oracle": "verdict-differs", "expected": expected_ok},
                        f"all_results_ok() = {got_ok}, executed tests have {by_name}\n", case)


def e1_invalid_keys(run):
    valid = set(ALL)
    for key in ("max_tries",):
        try:
            if key in run and int(run[key]) < 0:
                yield key, run[key]
        except (TypeError, ValueError):
            yield key, run[key]
    for key in ("rerun_status", "stop_status"):
        if key in run and set(str(run[key]).split()) - valid:
            yield key, run[key]


def body_factory(ctx):
    def body(case):
        sim = run_sim(case, ctx.scratch)
        e1.compute_final_producers(sim)
        e1.compute_removable(sim)
        e1.annotate_scans(sim)
        starts = sim.starts()
        retried = any(s["attempt"] > 0 for s in starts)
        labels = ["part:" + case["part"], f"workers={len(sim.workers)}"]
        if retried:
            labels.append("retried")
        if any(e["status"] not in ("PASS",) for e in sim.ends()):
            labels.append("non-pass")
        nontrivial = retried or case["part"] != "retry" and len(starts) > 0 or case["part"] == "invalid"
        ctx.case(case, nontrivial, labels, sample={"case": case, "log": sim.brief_log(12)})
        found = {}
        for violation in judge(sim, case):
            found.setdefault(violation.key, violation)
        unknown = [v for k, v in found.items() if k not in ctx.known]
        if unknown:
            raise unknown[0]
        if found:
            raise next(iter(found.values()))

    return body


def run(ctx):
    simmod.setup()
    rows = run_table(ctx)
    ctx.exhaustive_parts.append(f"T: should_rerun decision table ({ctx.tier} bounds)")
    scns = scenarios()
    names = sorted(scns)
    picked = [names[(ctx.shard + i * 3) % len(names)] for i in range(2 if ctx.tier == "quick" else 4)]
    mine = {n: scns[n] for n in picked}
    for scenario in mine.values():
        add_names(scenario)
    body = body_factory(ctx)
    for case in e1.REGRESSION_CASES.get("C10", []) if ctx.shard == 0 else []:
        try:
            body(case)
        except Violation as violation:
            ctx.record_violation(violation, case)
    shrink = ctx.tier == "thorough"
    ctx.hyp(retry_cases(mine), body, ctx.budget(320, 12000), name="retry", shrink=shrink)
    ctx.hyp(invalid_cases(mine), body, ctx.budget(48, 800), name="invalid", shrink=shrink)
    ctx.hyp(replay_cases(mine), body, ctx.budget(160, 6000), name="replay", shrink=shrink)


def add_names(scenario):
    """scenario_info + full node names per identity (for previous-job files)."""
    info = e1.scenario_info(scenario)
    if "names" in info:
        return info
    eager = simmod.Scenario(scenario.tests, scenario.vm_strs, scenario.nets, False)
    graph, _ = simmod.build_graph(eager)
    helper = simmod.Sim(eager)
    names = {}
    for node in graph.nodes:
        if node.is_flat() or node.is_shared_root() or len(node.cloned_nodes):
            continue
        names.setdefault(helper.identity(node), []).append(node.params["name"])
    info["names"] = {k: sorted(v) for k, v in names.items()}
    return info


def replay(ctx, case):
    simmod.setup()
    if case.get("part") == "table":
        return replay_table(case)
    scenario = simmod.Scenario.from_json(case["scenario"])
    add_names(scenario)
    sim = run_sim(case, ctx.scratch)
    e1.compute_final_producers(sim)
    e1.compute_removable(sim)
    e1.annotate_scans(sim)
    print("\n".join(sim.brief_log(300)))
    found = {}
    for violation in judge(sim, case):
        found.setdefault(violation.key, violation)
    return list(found.values())
