"""C16 - name lookups and visit counters are exact (DESIGN.md section 4, C16).

Part A (hypothesis): PrefixTree / TestGraph.get_nodes_by_name against a naive
contiguous-subsequence scan over generated parser-shaped name sets.
Part B (hypothesis stateful): EdgeRegister and the registers of real, bridged
TestNode objects against a plain dict model.
"""

import itertools

from hypothesis import strategies as st
from hypothesis.stateful import RuleBasedStateMachine, rule, precondition, invariant, initialize

from vlib.core import Violation, HarnessError

LEVEL = "exploration"
RULE = (
    "A: a case = (ordered list of distinct parser-shaped names, list of dotted queries); non-trivial when some "
    "query hits a name at a non-initial position or hits >=2 names, and >=3 names are stored. "
    "B: a case = rule sequence of a state machine over EdgeRegister / bridged TestNode registers; non-trivial "
    "when >=2 bridged nodes exist and >=2 visits were registered. "
    "C: simulated multi-worker traversals (E1) of real, partly lazily parsed graphs with clones; every visit "
    "registered during the run must be reported with its exact count through the registers of every equivalent "
    "node; non-trivial with >=2 workers. Distinct = distinct canonical JSON of the case."
)
ASSUMPTIONS = [
    "names have the shape the Cartesian parser produces: the first variant comes from a set alphabet that never "
    "occurs deeper in any name and no variant is repeated inside a name",
    "TestNode objects for part B are constructed with hand-written parameters instead of a parsed recipe",
]

SETS = ["all", "normal", "leaves"]
VARIANTS = ["a", "b", "c", "d", "e", "f", "nets", "vms"]


def load():
    from vlib import env

    env.check_origin()
    env.quiet_logging()
    from avocado_i2n.cartgraph.node import PrefixTree, EdgeRegister, TestNode
    from avocado_i2n.cartgraph.graph import TestGraph
    from avocado_i2n.cartgraph import TestSwarm

    return PrefixTree, EdgeRegister, TestNode, TestGraph, TestSwarm


class StandIn:
    def __init__(self, name):
        self.params = {"name": name}

    def __repr__(self):
        return f"<{self.params['name']}>"


# ---------------------------------------------------------------------------
# part A


@st.composite
def name_sets(draw):
    nvars = draw(st.integers(2, len(VARIANTS)))
    alphabet = VARIANTS[:nvars]
    count = draw(st.integers(1, 40 if draw(st.booleans()) else 8))
    names = draw(
        st.lists(
            st.tuples(
                st.sampled_from(SETS),
                st.lists(st.sampled_from(alphabet), min_size=0, max_size=min(5, nvars), unique=True),
            ),
            min_size=1,
            max_size=count,
            unique_by=lambda t: (t[0], tuple(t[1])),
        )
    )
    names = [".".join([first] + rest) for first, rest in names]
    queries = draw(
        st.lists(
            st.lists(st.sampled_from(SETS + alphabet + ["zz"]), min_size=1, max_size=4).map(".".join),
            min_size=1,
            max_size=12,
        )
    )
    # also ask for parts of stored names so that hits are frequent
    extra = []
    for _ in range(draw(st.integers(0, 6))):
        name = draw(st.sampled_from(names)).split(".")
        lo = draw(st.integers(0, len(name) - 1))
        hi = draw(st.integers(lo + 1, len(name)))
        extra.append(".".join(name[lo:hi]))
    return {"names": names, "queries": queries + extra}


def naive(names, query):
    q = query.split(".")
    hits = []
    for name in names:
        v = name.split(".")
        if any(v[i:i + len(q)] == q for i in range(len(v) - len(q) + 1)):
            hits.append(name)
    return sorted(hits)


def check_lookup(case, impl):
    PrefixTree, EdgeRegister, TestNode, TestGraph, TestSwarm = impl
    names, queries = case["names"], case["queries"]
    tree = PrefixTree()
    graph = TestGraph()
    nodes = [StandIn(name) for name in names]
    for node in nodes:
        tree.insert(node)
    graph.new_nodes(nodes)
    nontrivial = False
    for query in queries:
        expected = naive(names, query)
        try:
            got_nodes = tree.get(query)
            got = sorted(n.params["name"] for n in got_nodes)
            contained = query in tree
            by_name = sorted(n.params["name"] for n in graph.get_nodes_by_name(query))
        except Exception as error:
            raise Violation({"oracle": "lookup-raises", "error": type(error).__name__},
                            f"lookup of {query!r} raised {error!r}", case)
        if got != expected:
            kind = "duplicate" if len(set(got)) != len(got) else (
                "missing" if set(expected) - set(got) else "spurious")
            raise Violation({"oracle": "lookup-differs-from-scan", "kind": kind},
                            f"query {query!r}: tree {got} != scan {expected}", case)
        if len({id(n) for n in got_nodes}) != len(got_nodes):
            raise Violation({"oracle": "lookup-differs-from-scan", "kind": "duplicate"},
                            f"query {query!r}: a node returned twice", case)
        if contained != bool(expected):
            raise Violation({"oracle": "membership-disagrees"},
                            f"query {query!r}: in-tree {contained} but lookup gives {expected}", case)
        if by_name != expected:
            raise Violation({"oracle": "get_nodes_by_name-differs"},
                            f"query {query!r}: graph {by_name} != scan {expected}", case)
        try:
            unique = graph.get_nodes_by_name(query, unique=True)
            if len(expected) != 1 or unique.params["name"] != expected[0]:
                raise Violation({"oracle": "unique-lookup"},
                                f"query {query!r}: unique returned {unique} for {expected}", case)
        except RuntimeError:
            if len(expected) == 1:
                raise Violation({"oracle": "unique-lookup"},
                                f"query {query!r}: unique raised for the single hit {expected}", case)
        if len(expected) >= 2 or any(not n.startswith(query) for n in expected):
            nontrivial = True
    # insertion order must not matter: reversed and rotated orders give the same answers
    for order in (list(reversed(nodes)), nodes[len(nodes) // 2:] + nodes[:len(nodes) // 2]):
        other = PrefixTree()
        for node in order:
            other.insert(node)
        for query in queries:
            if sorted(n.params["name"] for n in other.get(query)) != naive(names, query):
                raise Violation({"oracle": "insertion-order"},
                                f"query {query!r} differs for another insertion order", case)
    return nontrivial and len(names) >= 3


# ---------------------------------------------------------------------------
# part B


WORKERS = ["net1", "net2", "net3", "cluster1.net6"]
IDENTS = ["x", "y", "z", "x.y"]


class Worker:
    def __init__(self, wid):
        self.id = wid

    def __repr__(self):
        return self.id


def make_machine(impl, ctx):
    PrefixTree, EdgeRegister, TestNode, TestGraph, TestSwarm = impl
    from virttest.utils_params import Params

    def real_node(ident, wid):
        node = TestNode("1", None)
        node._params_cache = Params({
            "name": f"all.nets.{wid}.{ident}.vms.vm1",
            "shortname": f"{ident}.{wid}",
            "main_restrictions": "all normal",
            "_name_map_file": {"nets.cfg": "nets." + wid},
            "nets": wid,
            "vms": "vm1",
        })
        node.objects = [object()]
        return node

    class RegisterMachine(RuleBasedStateMachine):
        excluded_keys = set()
        last_violation = None

        def __init__(self):
            super().__init__()
            self.steps = []
            # plain register with stand-ins
            self.register = EdgeRegister()
            self.model = {}
            # real nodes: identity -> wid -> node ; edges parent identity -> child identity
            self.nodes = {}
            self.rmodel = {}  # (register kind, owner identity, other identity, wid) -> count
            self.workers = {w: Worker(w) for w in WORKERS}

        def fail(self, sig, detail):
            violation = Violation(sig, detail, {"steps": list(self.steps)})
            if violation.key in type(self).excluded_keys or ctx.is_known(violation):
                ctx.excluded += 1
                return
            type(self).last_violation = (violation, {"steps": list(self.steps)})
            raise violation

        # ---- plain EdgeRegister ------------------------------------------
        @rule(ident=st.sampled_from(IDENTS), wid=st.sampled_from(WORKERS))
        def plain_register(self, ident, wid):
            self.steps.append(["plain_register", ident, wid])
            node = type("N", (), {"bridged_form": ident})()
            self.register.register(node, self.workers[wid])
            self.model[(ident, wid)] = self.model.get((ident, wid), 0) + 1

        @rule(ident=st.sampled_from(IDENTS + [None]), wid=st.sampled_from(WORKERS + [None]))
        def plain_query(self, ident, wid):
            self.steps.append(["plain_query", ident, wid])
            node = type("N", (), {"bridged_form": ident})() if ident else None
            worker = self.workers[wid] if wid else None
            expected = sum(c for (i, w), c in self.model.items()
                           if (ident is None or i == ident) and (wid is None or w == wid))
            got = self.register.get_counters(node, worker)
            if got != expected:
                self.fail({"oracle": "counter-differs", "part": "plain"},
                          f"get_counters({ident},{wid}) = {got}, registered {expected}")
            expected_workers = {w for (i, w), c in self.model.items() if ident is None or i == ident}
            got_workers = self.register.get_workers(node)
            if set(got_workers) != expected_workers:
                self.fail({"oracle": "workers-differ", "part": "plain"},
                          f"get_workers({ident}) = {got_workers}, registered {expected_workers}")

        # ---- registers of real bridged nodes ------------------------------
        @rule(ident=st.sampled_from(IDENTS[:3]), wid=st.sampled_from(WORKERS))
        def add_copy(self, ident, wid):
            copies = self.nodes.setdefault(ident, {})
            if wid in copies:
                return
            self.steps.append(["add_copy", ident, wid])
            node = real_node(ident, wid)
            for other_ident, other_copies in self.nodes.items():
                if other_ident == ident or wid not in other_copies:
                    continue
                # x -> y -> z chain of setup (parent) to cleanup (child)
                order = IDENTS[:3]
                if order.index(other_ident) + 1 == order.index(ident):
                    node.descend_from_node(other_copies[wid], object())
                elif order.index(ident) + 1 == order.index(other_ident):
                    other_copies[wid].descend_from_node(node, object())
            for other in list(copies.values()):
                node.bridge_with_node(other)
            copies[wid] = node

        def edges(self):
            for ident, copies in self.nodes.items():
                for wid, node in copies.items():
                    for parent in node.setup_nodes:
                        yield node, parent, wid

        @precondition(lambda self: any(True for _ in self.edges()))
        @rule(data=st.data(), up=st.booleans(), visitor=st.sampled_from(WORKERS))
        def drop(self, data, up, visitor):
            edges = sorted(self.edges(), key=lambda e: (e[0].params["name"], e[1].params["name"]))
            child, parent, wid = data.draw(st.sampled_from(edges))
            cident = child.params["shortname"].rsplit("." + wid, 1)[0]
            pident = parent.params["shortname"].rsplit("." + wid, 1)[0]
            self.steps.append(["drop", "parent" if up else "child", cident, pident, wid, visitor])
            worker = self.workers[visitor]
            if up:
                child.drop_parent(parent, worker)
                key = ("dropped_setup", cident, pident, visitor)
            else:
                parent.drop_child(child, worker)
                key = ("dropped_cleanup", pident, cident, visitor)
            self.rmodel[key] = self.rmodel.get(key, 0) + 1

        @invariant()
        def registers_agree(self):
            for ident, copies in self.nodes.items():
                for wid, node in copies.items():
                    # symmetric bridging among copies
                    others = {id(n) for w, n in copies.items() if w != wid}
                    if {id(n) for n in node.bridged_nodes} != others:
                        self.fail({"oracle": "bridging-asymmetric"},
                                  f"{node} bridged with {node.bridged_nodes}, copies are {list(copies)}")
                    for kind, register in (("dropped_setup", node._dropped_setup_nodes),
                                           ("dropped_cleanup", node._dropped_cleanup_nodes)):
                        neighbours = node.setup_nodes if kind == "dropped_setup" else node.cleanup_nodes
                        for other in neighbours:
                            oident = other.params["shortname"].rsplit("." + wid, 1)[0]
                            for visitor in WORKERS:
                                expected = self.rmodel.get((kind, ident, oident, visitor), 0)
                                got = register.get_counters(other, self.workers[visitor])
                                if got != expected:
                                    self.fail({"oracle": "counter-differs", "part": "bridged"},
                                              f"{kind} of {ident}@{wid} about {oident} by {visitor}: {got} != {expected}")
                            expected_workers = {v for (k, i, o, v), c in self.rmodel.items()
                                                if k == kind and i == ident and o == oident}
                            got_workers = set(register.get_workers(other))
                            if got_workers != expected_workers:
                                self.fail({"oracle": "workers-differ", "part": "bridged"},
                                          f"{kind} of {ident}@{wid} about {oident}: {got_workers} != {expected_workers}")
                        # readiness as the traversal evaluates it
                    for visitor in WORKERS:
                        if visitor != wid:
                            continue
                        ready = all(
                            self.rmodel.get(("dropped_setup", ident, p.params["shortname"].rsplit("." + wid, 1)[0], visitor), 0) > 0
                            for p in node.setup_nodes)
                        if node.is_setup_ready(self.workers[visitor]) != ready:
                            self.fail({"oracle": "setup-ready-differs"},
                                      f"is_setup_ready of {ident}@{wid} for {visitor} is not {ready}")

        def teardown(self):
            bridged = sum(1 for copies in self.nodes.values() if len(copies) >= 2)
            visits = sum(self.rmodel.values()) + sum(self.model.values())
            ctx.case({"steps": self.steps}, bridged >= 1 and visits >= 2,
                     labels=["B:machine"] + (["B:bridged>=2"] if bridged else []) + (["B:3workers"] if any(len(c) >= 3 for c in self.nodes.values()) else []))

    return RegisterMachine


# ---------------------------------------------------------------------------


def run(ctx):
    impl = load()

    def body(case):
        nontrivial = check_lookup(case, impl)
        labels = ["A:lookup"]
        if len(case["names"]) > 8:
            labels.append("A:>8names")
        if nontrivial:
            labels.append("A:nontrivial")
        ctx.case(case, nontrivial, labels)

    # regression inputs first (bypassing hypothesis)
    for case in (REGRESSIONS if ctx.shard == 0 else []):
        body(case)
    ctx.hyp(name_sets(), body, ctx.budget(4000, 400000), name="lookup")
    ctx.machine(make_machine(impl, ctx), ctx.budget(1000, 100000), steps=40, name="register")
    run_graph_part(ctx)


def graph_scenarios():
    from vlib import sim as simmod

    return {
        "get/w2/lazy": simmod.Scenario("leaves&tutorial_get", nets="net1 net2", lazy=True),
        "t2+get-implicit/w2/lazy": simmod.Scenario("leaves&tutorial2,tutorial_get..implicit_both", nets="net1 net2", lazy=True),
        "finale+t1/w3/lazy": simmod.Scenario("leaves&tutorial_finale,tutorial1", nets="net1 net2 net3", lazy=True),
        "gui/w2/lazy": simmod.Scenario("leaves&tutorial_gui", nets="net1 net2", lazy=True),
        "t2gui/cc/lazy": simmod.Scenario("leaves&tutorial2,tutorial_gui", nets="cluster1.net6 cluster2.net6", lazy=True),
        "t3/w3": simmod.Scenario("normal&tutorial3", nets="net1 net2 net3", lazy=False),
    }


def run_graph_part(ctx):
    """Part C: the registers of the real graph during real (simulated) traversals, incl. lazily parsed clones."""
    from vlib import e1, sim as simmod

    simmod.setup()
    names = sorted(graph_scenarios())
    mine = {names[ctx.shard % len(names)]: graph_scenarios()[names[ctx.shard % len(names)]]}

    def body(case):
        sim = e1.run_case(case, ctx.scratch)
        nontrivial = len(sim.workers) >= 2 and len(sim.registrations) >= 2
        ctx.case(case, nontrivial, ["C:graph-registers", "C:" + case["scenario_name"]],
                 sample={"case": case, "registrations": len(sim.registrations)})
        for violation in e1.oracle_registers(sim, case):
            raise violation

    ctx.hyp(e1.cases(mine, {"dry_run": False, "pool_filter": False, "scopes": False}), body,
            ctx.budget(48, 3200), name="graph-registers", shrink=False)


REGRESSIONS = [
    {"names": ["all.a.b", "all.a", "normal.b.a", "leaves.c.a.b"], "queries": ["a", "a.b", "b", "all", "all.b", "c.a", "zz"]},
    {"names": ["all.nets.a.b.vms.c", "all.nets.d.b.vms.c"], "queries": ["b.vms", "nets", "nets.d", "a.b.vms.c", "vms.c", "b.c"]},
]


def replay(ctx, case):
    if "scenario" in case:
        from vlib import e1, sim as simmod

        simmod.setup()
        sim = e1.run_case(case, ctx.scratch)
        return list(e1.oracle_registers(sim, case))
    impl = load()
    if "steps" in case:
        machine_cls = make_machine(impl, ctx)
        machine = machine_cls()
        found = []
        try:
            for step in case["steps"]:
                if step[0] == "plain_register":
                    machine.plain_register(step[1], step[2])
                elif step[0] == "plain_query":
                    machine.plain_query(step[1], step[2])
                elif step[0] == "add_copy":
                    machine.add_copy(step[1], step[2])
                elif step[0] == "drop":
                    _, direction, cident, pident, wid, visitor = step
                    child, parent = machine.nodes[cident][wid], machine.nodes[pident][wid]
                    worker = machine.workers[visitor]
                    if direction == "parent":
                        child.drop_parent(parent, worker)
                        key = ("dropped_setup", cident, pident, visitor)
                    else:
                        parent.drop_child(child, worker)
                        key = ("dropped_cleanup", pident, cident, visitor)
                    machine.rmodel[key] = machine.rmodel.get(key, 0) + 1
                    machine.steps.append(step)
                machine.registers_agree()
        except Violation as violation:
            found.append(violation)
        return found
    try:
        check_lookup(case, impl)
    except Violation as violation:
        return [violation]
    return []
