"""C08 - decided by the E1 traversal simulator (vlib/sim.py, vlib/e1.py)."""

from vlib import e1

LEVEL = "exploration"
BIAS = {}
RULE = e1.RULES["C08"]
ASSUMPTIONS = e1.ASSUMPTIONS
run = e1.make_run("C08", e1.BIASES["C08"], **e1.DRIVER_ARGS.get("C08", {}))
replay = e1.make_replay("C08")
