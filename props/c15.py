"""C15 - the update tool reruns exactly the requested path and drops only its dependants.

Runs the real `update` tool through Manu.run (command line parser, graph parsing, flagging, traversal) at the E1
seams and compares the executed tests and the state removals with a reference computed from a separately parsed
and exported graph (own path and descendant computation).
"""

import re

from hypothesis import strategies as st

from vlib import sim as simmod, toolsim, e1, ginspect
from vlib.core import Violation, HarnessError

LEVEL = "exploration"
RULE = (
    "case = vm selection (subsets of vm1 vm2, default variants) x per-vm (from_state, to_state) along the vm's setup "
    "chain (install, customize, on_customize, connect, linux_virtuser / windows_virtuser; from==to and install corner "
    "cases) or a state name that does not exist x remove_set (default, minimal, leaves, normal, tutorial1, "
    "leaves..tutorial_gui, all..tutorial_gui..client_clicked) x 1-3 workers x durations. Non-trivial = from != to, or "
    ">=2 vms, or >=2 workers, or a rejected state. Distinct = canonical JSON."
)
ASSUMPTIONS = e1.ASSUMPTIONS[:3] + [
    "the job is the selftests' stand-in (intertest_setup.new_job seam)",
    "the reference graph of the remove set is parsed with the real parser (as C06/C07 check it) and exported; the path "
    "between the states and the descendants of the target state are computed by the check itself",
    "from_state is an ancestor of (or equal to) to_state; other orders are not generated",
]

CHAINS = {
    "vm1": {"install": None, "customize": "install", "on_customize": "customize", "connect": "customize",
            "linux_virtuser": "customize"},
    "vm2": {"install": None, "customize": "install", "on_customize": "customize", "windows_virtuser": "customize"},
}
REMOVE_SETS = [None, "minimal", "leaves", "leaves", "normal", "tutorial1", "leaves..tutorial_gui",
               "all..tutorial_gui..client_clicked"]
NETS = ["net1", "net1", "net1 net2", "net1 net2 net3", "cluster1.net6 cluster1.net7", "net5 net1", "net1 net3 net2", "net5 net1"]


def ancestors(vm, state):
    out = [state]
    while CHAINS[vm][out[-1]]:
        out.append(CHAINS[vm][out[-1]])
    return out  # state, parent, ..., install


@st.composite
def cases(draw):
    vms = draw(st.sampled_from([["vm1"], ["vm1"], ["vm2"], ["vm1", "vm2"]]))
    spec = {}
    for vm in vms:
        to_state = draw(st.sampled_from(sorted(CHAINS[vm])))
        from_state = draw(st.sampled_from(ancestors(vm, to_state)))
        spec[vm] = {"from": from_state, "to": to_state}
    case = {"vms": vms, "spec": spec, "remove_set": draw(st.sampled_from(REMOVE_SETS)), "nets": draw(st.sampled_from(NETS)),
            "durations": draw(st.lists(st.sampled_from(["0.01T", "0.05T", "0.1T"]), min_size=2, max_size=2))}
    if draw(st.integers(0, 7)) == 0:
        vm = draw(st.sampled_from(vms))
        which = draw(st.sampled_from(["from", "to"]))
        case["spec"][vm][which] = draw(st.sampled_from(["nosuchstate", "customise"]))
        case["bogus"] = [vm, which]
    return case


def run_case(case, scratch):
    simmod.setup()
    from avocado_i2n.plugins.manu import Manu

    params = ["setup=update", "nets=" + case["nets"].replace(" ", ","), "vms=" + ",".join(case["vms"])]
    if case["remove_set"]:
        params.append("remove_set=" + case["remove_set"])
    for vm, spec in case["spec"].items():
        params.append(f"from_state_{vm}={spec['from']}")
        params.append(f"to_state_{vm}={spec['to']}")
    tool_sim = toolsim.ToolSim(durations=case["durations"], outcomes=["PASS"], scratch=scratch)
    tool_sim.max_iterations = 200_000
    with toolsim.session(tool_sim):
        try:
            tool_sim.retcode = Manu().run({"i2n.manu.params": params})
        except Exception as error:
            tool_sim.error = error
            tool_sim.retcode = None
    return tool_sim


_REFERENCE = {}


def reference(case, vm, worker_id):
    """Exported graph of the remove set for one vm and worker, parsed the way the documentation describes the
    tool's view: the remove set restricted to the updated vm."""
    mods = simmod.setup()
    from avocado_i2n import params_parser as param

    remove_set = case["remove_set"] or "minimal"
    key = (remove_set, vm, worker_id)
    if key in _REFERENCE:
        return _REFERENCE[key]
    TestGraph = mods["TestGraph"]
    workers = {w.id: w for w in TestGraph.parse_workers({"nets": case["nets"]})}
    worker = workers[worker_id]
    restrictions = ["all", "nonleaves", "leaves", "normal", "normal.gui", "normal.nongui", "minimal"]
    setup_str = remove_set if any(r in remove_set for r in restrictions) else "all.." + remove_set
    setup_dict = {"nets": worker_id, "vms": vm, "main_vm": vm, "create_permanent_vm": "yes", "get_mode": "ra",
                  "set_mode": "ff", "unset_mode": "fi"}
    try:
        graph = TestGraph.parse_object_trees(worker=worker, restriction=param.re_str(setup_str), prefix="9m1",
                                             object_restrs=dict(e1.DEFAULT_VMS), params=setup_dict, with_shared_root=False)
        exported = ginspect.export(graph)
    except param.EmptyCartesianProduct:
        exported = None
    _REFERENCE[key] = exported
    return exported


def vm_states(entry, vm):
    """(set states, get states) of the objects of one vm in an exported node."""
    sets = [o["set_state"] for o in entry["objects"] if o["key"] != "nets" and (o["suffix"] == vm or o["long_suffix"].endswith("_" + vm))
            and o["set_state"]]
    return sets


def expectation(case, vm, worker_id):
    """(rejected, [test parts on the path in order], {states to remove}) from the reference graph."""
    ex = reference(case, vm, worker_id)
    spec = case["spec"][vm]
    if ex is None:
        return "skipped", [], set()
    nodes = {k: v for k, v in ex["nodes"].items() if k != "__duplicates__"}
    by_state = {}
    for entry in nodes.values():
        if entry["flat"] or entry["clones"]:
            continue
        for state in vm_states(entry, vm):
            by_state.setdefault(state, []).append(entry)
    if spec["to"] not in by_state or spec["from"] not in CHAINS[vm] or spec["to"] not in CHAINS[vm]:
        return "rejected", [], set()
    if spec["from"] != "install" and spec["from"] not in by_state:
        return "rejected", [], set()
    target = by_state[spec["to"]][0]
    # path: from the target up through the vm's chain to from_state
    path = []
    for state in ancestors(vm, spec["to"]):
        path.append(state)
        if state == spec["from"]:
            break
    path.reverse()
    # descendants of the target along cleanup edges
    removed, stack, seen = set(), [target["name"]], set()
    while stack:
        name = stack.pop()
        for child in nodes[name]["children"]:
            if child in seen or child not in nodes:
                continue
            seen.add(child)
            stack.append(child)
            if nodes[child]["clones"] or nodes[child]["flat"]:
                continue
            for state in vm_states(nodes[child], vm):
                removed.add(state)
    return "ok", path, removed


STATE_TEST = {"install": "original.unattended_install", "customize": "internal.automated.customize",
              "on_customize": "internal.automated.on_customize", "connect": "internal.automated.connect",
              "linux_virtuser": "internal.automated.linux_virtuser", "windows_virtuser": "internal.automated.windows_virtuser"}


def judge(sim, case):
    workers = case["nets"].split()
    verdicts = {}
    for vm in case["vms"]:
        for worker in workers:
            verdicts[(vm, worker)] = expectation(case, vm, worker)
    rejected = any(v[0] == "rejected" for v in verdicts.values())
    starts = sim.starts()
    unsets = [e for e in sim.events if e["kind"] == "door" and e["action"] == "unset"]
    if rejected:
        if sim.retcode != 1:
            yield Violation({"oracle": "nonexistent-state-accepted"},
                            f"update with {case['spec']} and remove_set={case['remove_set']} returned {sim.retcode}", case)
        if starts or unsets:
            yield Violation({"oracle": "rejected-update-acts"},
                            f"rejected update executed {len(starts)} tests and issued {len(unsets)} removals", case)
        return
    if sim.error is not None or sim.retcode != 0:
        yield Violation({"oracle": "update-fails", "retcode": sim.retcode},
                        f"update with {case['spec']} remove_set={case['remove_set']} returned {sim.retcode} ({sim.error!r})\n"
                        + "\n".join(sim.brief_log(40)), case)
        return
    for vm in case["vms"]:
        status, path, removed = verdicts[(vm, workers[0])]
        if status == "skipped":
            continue
        expected_tests = [STATE_TEST[s] for s in path]
        executed = [s for s in starts if s["params"].get("vms") == vm]
        got_tests = []
        for start in executed:
            if start.get("node_type") == "shared_configure_install":
                got_tests.append("creation-step")
                continue
            part = next((t for t in STATE_TEST.values() if "." + t + "." in "." + start["name"]), start["name"][:60])
            got_tests.append(part)
        expected_full = (["creation-step"] if "install" in path else []) + expected_tests
        if sorted(got_tests) != sorted(expected_full):
            extra = [t for t in got_tests if t not in expected_full or got_tests.count(t) > expected_full.count(t)]
            missing = [t for t in expected_full if t not in got_tests]
            kind = "extra" if extra else "missing"
            yield Violation({"oracle": "executed-tests-differ", "kind": kind},
                            f"{vm}: update {case['spec'][vm]} executed {got_tests}, the path is {expected_full}\n"
                            + "\n".join(sim.brief_log(40)), case)
        elif [t for t in got_tests if t != "creation-step"] != expected_tests:
            yield Violation({"oracle": "executed-tests-out-of-order"},
                            f"{vm}: executed {got_tests}, path order {expected_tests}", case)
        for worker in workers:
            status, path, removed = verdicts[(vm, worker)]
            got = set()
            for event in unsets:
                if event["worker"] != worker:
                    continue
                for request in event["requests"]:
                    if request["vm"] == vm:
                        got.add(request["state"])
            if got != removed:
                kind = "extra" if got - removed else "missing"
                yield Violation({"oracle": "removed-states-differ", "kind": kind},
                                f"{vm} on {worker}: removed {sorted(got)}, descendants of {case['spec'][vm]['to']} in the remove set "
                                f"are {sorted(removed)}\n" + "\n".join(sim.brief_log(40)), case)
    # nothing of unselected vms
    for start in starts:
        vms = start["params"].get("vms", "").split()
        if any(vm not in case["vms"] for vm in vms):
            yield Violation({"oracle": "unselected-vm-touched", "what": "executed"}, f"{start['name'][:100]} uses {vms}", case)
    for event in unsets:
        for request in event["requests"]:
            if request["vm"] not in case["vms"]:
                yield Violation({"oracle": "unselected-vm-touched", "what": "removed"},
                                f"{event['worker']} removed {request['state']} of {request['vm']}", case)


def body_factory(ctx):
    def body(case):
        sim = run_case(case, ctx.scratch)
        labels = [f"vms={len(case['vms'])}", f"workers={len(case['nets'].split())}", "remove_set=" + str(case["remove_set"])]
        labels += ["bogus-state"] if "bogus" in case else []
        nontrivial = any(s["from"] != s["to"] for s in case["spec"].values()) or len(case["vms"]) > 1 \
            or len(case["nets"].split()) > 1 or "bogus" in case
        ctx.case(case, nontrivial, labels, sample={"case": case, "log": sim.brief_log(12), "retcode": sim.retcode})
        found = {}
        for violation in judge(sim, case):
            found.setdefault(violation.key, violation)
        unknown = [v for k, v in found.items() if k not in ctx.known]
        if unknown:
            raise unknown[0]
        if found:
            raise next(iter(found.values()))

    return body


REGRESSIONS = [
    {"vms": ["vm1"], "spec": {"vm1": {"from": "install", "to": "customize"}}, "remove_set": None, "nets": "net1", "durations": ["0.01T", "0.05T"]},
    {"vms": ["vm1", "vm2"], "spec": {"vm1": {"from": "customize", "to": "connect"}, "vm2": {"from": "install", "to": "customize"}},
     "remove_set": "leaves", "nets": "net1 net2", "durations": ["0.01T", "0.05T"]},
    {"vms": ["vm1"], "spec": {"vm1": {"from": "install", "to": "install"}}, "remove_set": "leaves", "nets": "net1", "durations": ["0.01T", "0.05T"]},
    {"vms": ["vm1"], "spec": {"vm1": {"from": "install", "to": "connect"}}, "remove_set": "minimal", "nets": "net1", "durations": ["0.01T", "0.05T"]},
]


def run(ctx):
    simmod.setup()
    body = body_factory(ctx)
    for case in REGRESSIONS if ctx.shard == 0 else []:
        try:
            body(case)
        except Violation as violation:
            ctx.record_violation(violation, case)
    ctx.hyp(cases(), body, ctx.budget(160, 3200), name="update", shrink=(ctx.tier == "thorough"))


def replay(ctx, case):
    simmod.setup()
    sim = run_case(case, ctx.scratch)
    print("\n".join(sim.brief_log(200)))
    print("retcode", sim.retcode, "error", repr(sim.error))
    found = {}
    for violation in judge(sim, case):
        found.setdefault(violation.key, violation)
    return list(found.values())
