"""C19 - tunnel end point parameters mirror each other (DESIGN.md section 4, C19).

The type product local {nic, internetip, custom} x remote {custom, externalip,
modeconfig} x peer {ip, dynip} x auth {None, pubkey, psk with empty/custom ids}
is enumerated (every shard owns a slice of the catalogue); for every entry
hypothesis generates vm networks (2-4 vms, 1-3 nics each over pairwise disjoint
subnets that may be shared between vms), the tunnel end points, the nic roles
used in the dictionaries and - optionally - a second tunnel on the same network.

The real VMNetwork is built with stub env/vm objects as in
selftests/isolation/test_vm_network.py and tunnels are constructed the way
configure_tunnel_between_vms / configure_roadwarrior_vpn_on_server do
(net.new_tunnel(name, left_node, right_node, local1, remote1, peer1, auth)),
without the guest side configuration that follows in those callers.
"""

import copy
import ipaddress
import itertools

from hypothesis import strategies as st

from vlib.core import Violation

LEVEL = "exploration"
RULE = (
    "catalogue = every (local, remote, peer, auth) type combination (108 entries, psk split by empty/custom ids on "
    "each side) plus every (position, unsupported type string) entry; each entry is run against generated networks "
    "(2-4 vms, 1-3 nics per vm over 2-5 pairwise disjoint subnets of prefix 8..28 that vms may share, unique static "
    "addresses outside the DHCP range), generated end points, nic roles and optionally a second tunnel with another "
    "name. A case is non-trivial when the two sides are distinguishable in every mirrored quantity that is defined "
    "(different LAN nets when both sides have one, different psk ids when both are custom) and the network has a "
    "third node or the LAN of one side is shared; reject cases are non-trivial when the base configuration is "
    "otherwise valid. Distinct = canonical JSON of the case."
)
ASSUMPTIONS = [
    "env and vm objects are stubs (name, params) as in selftests/isolation/test_vm_network.py; no guest is configured",
    "tunnels are built with VMNetwork.new_tunnel exactly as configure_tunnel_between_vms does, the guest side "
    "configure_between_endpoints step is not run",
    "dictionaries have the callers' shape: 'nic' key present for types nic/custom(remote)/ip/dynip, custom local "
    "with lnet/lmask/rnet/rmask taken from subnets that are identical to or disjoint from every netconfig, "
    "modeconfig with modeconfig_ip, no authentication passed as None ({'type': 'none'} is never generated)",
    "custom local optionally comes with the vpnconn_remote_net presets configure_vpn_route writes into the vm params",
    "tunnel and vm names contain no underscore (virttest's object_params splits keys at the first suffix match)",
    "mirror equality of LAN/remote nets is required whenever both sides define the value; definedness is required "
    "only where the type calls for it (nic, remote custom); VMTunnel itself does not generate the right side remote "
    "net of a custom local configuration and this is tolerated as in DESIGN.md",
]

LOCALS = ["nic", "internetip", "custom"]
REMOTES = ["custom", "externalip", "modeconfig"]
PEERS = ["ip", "dynip"]
AUTHS = ["none", "pubkey", "psk-ee", "psk-ec", "psk-ce", "psk-cc"]
ROLES = ["internet_nic", "lan_nic", "dmz_nic"]
PREFIXES = [8, 12, 16, 20, 24, 26, 28]
FIRST_OCTETS = [10, 172, 192, 44, 100]
NAMES = ["vpn1", "vpn2", "vpn1fwd", "tun0", "s2s"]
IDS = ["arnold@vm1", "arnold@vm2", "left.example.org", "r", "10.0.0.1"]
SECRETS = ["the secret", "x", "s3cr3t with spaces"]
MODECONFIG_IPS = ["172.30.0.1", "10.99.0.7"]

BAD_TYPES = {
    "local": ["", "NIC", "lan", "externalip", "modeconfig"],
    "remote": ["", "Custom", "nic", "internetip", "net"],
    "peer": ["", "IP", "nic", "dynamic", "static"],
    "auth": ["", "PSK", "public", "cert", "psk "],
}

# documented counterpart of the left hand types on the right hand side
RIGHT_REMOTE_TYPE = {"nic": "CUSTOM", "internetip": "EXTERNALIP", "custom": "CUSTOM"}


def right_lan_type(local, remote):
    if remote == "custom":
        return "CUSTOM" if local == "custom" else "NIC"
    if remote == "externalip":
        return "INTERNETIP"
    return "NIC"  # modeconfig: the default


def catalogue():
    entries = []
    for local, remote, peer, auth in itertools.product(LOCALS, REMOTES, PEERS, AUTHS):
        entries.append({"kind": "valid", "local": local, "remote": remote, "peer": peer, "auth": auth})
    for position in ("local", "remote", "peer", "auth"):
        for bad in BAD_TYPES[position]:
            entries.append({"kind": "reject", "position": position, "bad": bad})
    return entries


def load():
    from vlib import env

    env.check_origin()
    env.quiet_logging()
    from avocado_i2n.vmnet import VMNetwork
    from virttest.utils_params import Params

    return VMNetwork, Params


# ---------------------------------------------------------------------------
# generation


@st.composite
def networks(draw):
    nsub = draw(st.integers(2, 5))
    subnets = []
    for k in range(nsub):
        prefix = draw(st.sampled_from(PREFIXES))
        block = draw(st.integers(0, 2 ** (prefix - 8) - 1))
        size = 2 ** (32 - prefix)
        net = ipaddress.IPv4Network(((FIRST_OCTETS[k] << 24) + block * size, prefix))
        if size >= 256 and draw(st.booleans()):
            rng, top = None, 99  # default DHCP range 100-200
        else:
            lo = size // 2
            hi = min(size - 2, lo + draw(st.integers(0, 50)))
            rng, top = "%s-%s" % (lo, hi), lo - 1
        hosts = draw(st.lists(st.integers(1, min(top, 250)), min_size=4, max_size=4, unique=True))
        subnets.append({"net": str(net.network_address), "mask": str(net.netmask), "range": rng, "hosts": hosts})
    nvms = draw(st.sampled_from([3, 2, 4, 3, 4]))
    vms, used = [], [0] * nsub
    for v in range(nvms):
        nnics = draw(st.integers(1, min(3, nsub)))
        order = draw(st.permutations(list(range(nsub))))[:nnics]
        nics = []
        for n, sub in enumerate(order):
            nics.append({"name": "b%s" % (n + 1), "subnet": sub, "host": subnets[sub]["hosts"][used[sub]]})
            used[sub] += 1
        perm = draw(st.permutations([nic["name"] for nic in nics]))
        roles = {role: perm[i % len(perm)] for i, role in enumerate(ROLES)}
        vms.append({"name": "vm%s" % (v + 1), "nics": nics, "roles": roles})
    for subnet in subnets:
        del subnet["hosts"]
    return {"subnets": subnets, "vms": vms}


@st.composite
def tunnel_specs(draw, network, name, local, remote, peer, auth):
    """A tunnel between two generated end points with dictionaries in the callers' shape."""
    nvms, nsub = len(network["vms"]), len(network["subnets"])
    ends = draw(st.permutations(list(range(nvms))))[:2]
    spec = {"name": name, "left": network["vms"][ends[0]]["name"], "right": network["vms"][ends[1]]["name"], "preset": False}
    if local == "custom":
        lsub = network["subnets"][draw(st.integers(0, nsub - 1))]
        rsub = network["subnets"][draw(st.integers(0, nsub - 1))]
        spec["local"] = {"type": "custom", "lnet": lsub["net"], "lmask": lsub["mask"], "rnet": rsub["net"], "rmask": rsub["mask"]}
        spec["preset"] = draw(st.booleans())
    elif local == "nic":
        spec["local"] = {"type": "nic", "nic": draw(st.sampled_from(ROLES[1:] + ["lan_nic"]))}
    else:
        spec["local"] = {"type": local}
        if draw(st.booleans()) and local not in LOCALS:
            spec["local"]["nic"] = "lan_nic"
    if remote == "custom":
        spec["remote"] = {"type": "custom", "nic": draw(st.sampled_from(ROLES[1:] + ["lan_nic"]))}
    elif remote == "modeconfig":
        spec["remote"] = {"type": "modeconfig", "modeconfig_ip": draw(st.sampled_from(MODECONFIG_IPS))}
    else:
        spec["remote"] = {"type": remote}
        if draw(st.booleans()) and remote not in REMOTES:
            spec["remote"]["nic"] = "lan_nic"
    spec["peer"] = {"type": peer, "nic": draw(st.sampled_from(ROLES[:1] + ROLES))}
    if auth == "none":
        spec["auth"] = None
    elif auth.startswith("psk-"):
        left_id, right_id = "", ""
        ids = draw(st.permutations(IDS))
        if auth[4] == "c":
            left_id = ids[0]
        if auth[5] == "c":
            right_id = ids[1]
        spec["auth"] = {"type": "psk", "psk": draw(st.sampled_from(SECRETS)), "left_id": left_id, "right_id": right_id}
    elif auth == "pubkey":
        spec["auth"] = {"type": "pubkey"}
    else:
        spec["auth"] = {"type": auth}
        if draw(st.booleans()):
            spec["auth"].update({"psk": "x", "left_id": "", "right_id": ""})
    return spec


valid_types = st.tuples(st.sampled_from(LOCALS), st.sampled_from(REMOTES), st.sampled_from(PEERS), st.sampled_from(AUTHS))


@st.composite
def cases(draw, entry):
    network = draw(networks())
    names = draw(st.permutations(NAMES))
    if entry["kind"] == "valid":
        types = [entry["local"], entry["remote"], entry["peer"], entry["auth"]]
    else:
        types = list(draw(valid_types))
        types[["local", "remote", "peer", "auth"].index(entry["position"])] = entry["bad"]
    main = draw(tunnel_specs(network, names[0], *types))
    tunnels = [main]
    if draw(st.integers(0, 2)) == 0:
        other = draw(tunnel_specs(network, names[1], *draw(valid_types)))
        # the other tunnel is built before or after the one under enumeration
        tunnels = [other, main] if draw(st.booleans()) else [main, other]
    case = {"kind": entry["kind"], "main": main["name"], "tunnels": tunnels}
    if entry["kind"] == "reject":
        case["position"] = entry["position"]
    case.update(network)
    return case


# ---------------------------------------------------------------------------
# building the real objects


class StubVM:
    def __init__(self, name, params):
        self.name = name
        self.params = params
        self.remote_sessions = []

    def __repr__(self):
        return "<vm %s>" % self.name


class StubEnv:
    def __init__(self):
        self.vms = {}

    def get_vm(self, name):
        return self.vms.get(name)

    def create_vm(self, vm_type, target, name, params, bindir):
        self.vms[name] = StubVM(name, params)
        return self.vms[name]


def address(case, nic):
    subnet = case["subnets"][nic["subnet"]]
    return str(ipaddress.IPv4Address(subnet["net"]) + nic["host"])


def build_network(case, impl):
    VMNetwork, Params = impl
    params = Params()
    params["vms"] = " ".join(vm["name"] for vm in case["vms"])
    params["mac"] = "00:00:00:00:00:00"
    params["nic_roles"] = " ".join(ROLES)
    for vm in case["vms"]:
        name = vm["name"]
        params["nics_%s" % name] = " ".join(nic["name"] for nic in vm["nics"])
        for role, nic in sorted(vm["roles"].items()):
            params["%s_%s" % (role, name)] = nic
        for nic in vm["nics"]:
            subnet = case["subnets"][nic["subnet"]]
            params["ip_%s_%s" % (nic["name"], name)] = address(case, nic)
            params["netmask_%s_%s" % (nic["name"], name)] = subnet["mask"]
            params["netdst_%s_%s" % (nic["name"], name)] = "virbr%s" % nic["subnet"]
            if subnet["range"] is not None:
                params["range_%s_%s" % (nic["name"], name)] = subnet["range"]
    return VMNetwork(params, StubEnv())


def build_tunnel(net, spec):
    """What configure_tunnel_between_vms does up to the guest configuration
    (preceded by what configure_vpn_route presets for custom local nets)."""
    left, right = net.nodes[spec["left"]], net.nodes[spec["right"]]
    if spec["preset"]:
        left.params["vpnconn_remote_net_%s" % spec["name"]] = spec["local"]["rnet"]
        right.params["vpnconn_remote_net_%s" % spec["name"]] = spec["local"]["lnet"]
    net.tunnels[spec["name"]] = net.new_tunnel(
        spec["name"], left, right,
        copy.deepcopy(spec["local"]), copy.deepcopy(spec["remote"]), copy.deepcopy(spec["peer"]), copy.deepcopy(spec["auth"]),
    )
    return net.tunnels[spec["name"]]


# ---------------------------------------------------------------------------
# reference


def role_nic(case, vm_name, role):
    vm = [vm for vm in case["vms"] if vm["name"] == vm_name][0]
    return [nic for nic in vm["nics"] if nic["name"] == vm["roles"][role]][0]


def role_subnet(case, vm_name, role):
    subnet = case["subnets"][role_nic(case, vm_name, role)["subnet"]]
    return subnet["net"], subnet["mask"]


def side_nets(case, spec):
    """(left LAN, right LAN) as (net, mask) or None, from the case description alone."""
    local, remote = spec["local"], spec["remote"]
    left_lan = right_lan = None
    if local["type"] == "nic":
        left_lan = role_subnet(case, spec["left"], local["nic"])
    elif local["type"] == "custom":
        left_lan = (local["lnet"], local["lmask"])
    if remote["type"] == "custom":
        if local["type"] == "custom":
            right_lan = (local["rnet"], local["rmask"])
        else:
            right_lan = role_subnet(case, spec["right"], remote["nic"])
    return left_lan, right_lan


def expectations(case, spec):
    """Per side: key -> (mode, value); mode 'eq' = must be defined and equal, 'opt' = equal if defined."""
    local, remote, peer, auth = spec["local"], spec["remote"], spec["peer"], spec["auth"]
    left_lan, right_lan = side_nets(case, spec)
    left = {"vpnconn": ("eq", spec["name"]), "vpn_side": ("eq", "left"),
            "vpnconn_lan_type": ("eq", local["type"].upper()),
            "vpnconn_remote_type": ("eq", remote["type"].upper()),
            "vpnconn_peer_type": ("eq", peer["type"].upper())}
    right = {"vpnconn": ("eq", spec["name"]), "vpn_side": ("eq", "right"),
             "vpnconn_lan_type": ("eq", right_lan_type(local["type"], remote["type"])),
             "vpnconn_remote_type": ("eq", RIGHT_REMOTE_TYPE[local["type"]]),
             "vpnconn_peer_type": ("eq", "IP")}
    if left_lan is not None:
        left["vpnconn_lan_net"], left["vpnconn_lan_netmask"] = ("eq", left_lan[0]), ("eq", left_lan[1])
        # VMTunnel does not generate these for a custom local net (configure_vpn_route presets the net only)
        mode = "eq" if local["type"] == "nic" else "opt"
        right["vpnconn_remote_net"], right["vpnconn_remote_netmask"] = (mode, left_lan[0]), (mode, left_lan[1])
    if right_lan is not None:
        right["vpnconn_lan_net"], right["vpnconn_lan_netmask"] = ("eq", right_lan[0]), ("eq", right_lan[1])
        left["vpnconn_remote_net"], left["vpnconn_remote_netmask"] = ("eq", right_lan[0]), ("eq", right_lan[1])
    if remote["type"] == "modeconfig":
        left["vpnconn_remote_modeconfig_ip"] = ("eq", remote["modeconfig_ip"])
    left_ip = address(case, role_nic(case, spec["left"], peer["nic"]))
    right_ip = address(case, role_nic(case, spec["right"], peer["nic"]))
    left["vpnconn_peer_ip"] = ("eq" if peer["type"] == "ip" else "opt", right_ip)
    left["vpnconn_activation"] = ("eq", "ALWAYS" if peer["type"] == "ip" else "PASSIVE")
    right["vpnconn_peer_ip"] = ("eq", left_ip)
    right["vpnconn_activation"] = ("eq", "ALWAYS")
    key_type = "NONE" if auth is None else {"pubkey": "PUBLIC", "psk": "PSK"}[auth["type"]]
    left["vpnconn_key_type"] = right["vpnconn_key_type"] = ("eq", key_type)
    if key_type == "PSK":
        left["vpnconn_psk"] = right["vpnconn_psk"] = ("eq", auth["psk"])
        for side, own, foreign in ((left, auth["left_id"], auth["right_id"]), (right, auth["right_id"], auth["left_id"])):
            side["vpnconn_psk_own_id"] = ("eq", own)
            side["vpnconn_psk_own_id_type"] = ("eq", "IP" if own == "" else "CUSTOM")
            side["vpnconn_psk_foreign_id"] = ("eq", foreign)
            side["vpnconn_psk_foreign_id_type"] = ("eq", "IP" if foreign == "" else "CUSTOM")
    return left, right


def key_class(key):
    if "psk" in key or "key_type" in key:
        return "auth"
    if key.endswith("_type"):
        return "types"
    if "peer_ip" in key or "activation" in key:
        return "peer"
    if "_net" in key or "modeconfig" in key:
        return "nets"
    return "identity"


def in_subnet(case, nic, lan):
    return ipaddress.IPv4Address(address(case, nic)) in ipaddress.IPv4Network("%s/%s" % lan)


def reference_connects(case, spec, a, b):
    left_lan, right_lan = side_nets(case, spec)
    vms = {vm["name"]: vm for vm in case["vms"]}

    def on_side(name, end, lan):
        return name == end or (lan is not None and any(in_subnet(case, nic, lan) for nic in vms[name]["nics"]))

    return (on_side(a, spec["left"], left_lan) and on_side(b, spec["right"], right_lan)) or (
        on_side(a, spec["right"], right_lan) and on_side(b, spec["left"], left_lan))


# ---------------------------------------------------------------------------
# oracle


def check_tunnel(case, spec, tunnel, net, labels):
    name = spec["name"]
    left_node, right_node = net.nodes[spec["left"]], net.nodes[spec["right"]]
    expected_left, expected_right = expectations(case, spec)
    views = {
        "node": (tunnel.left_params, tunnel.right_params),
        "tunnel": (tunnel.params.object_params(left_node.name).object_params(name),
                   tunnel.params.object_params(right_node.name).object_params(name)),
    }
    for view, (left, right) in sorted(views.items()):
        for side, got, expected in (("left", left, expected_left), ("right", right, expected_right)):
            for key, (mode, value) in sorted(expected.items()):
                if key not in got:
                    if mode == "eq":
                        raise Violation({"oracle": "parameter-missing", "class": key_class(key), "side": side, "view": view},
                                        f"tunnel {name}: {side} {key} is not defined, expected {value!r}; spec {spec}", case)
                    continue
                if got[key] != value:
                    raise Violation({"oracle": "parameter-not-counterpart", "class": key_class(key), "side": side, "view": view},
                                    f"tunnel {name}: {side} {key} = {got[key]!r}, expected {value!r}; spec {spec}", case)
        # the mirror relations proper, on whatever both sides define
        for one, other, sides in ((left, right, "left-lan/right-remote"), (right, left, "right-lan/left-remote")):
            for suffix in ("net", "netmask"):
                lan, remote = one.get("vpnconn_lan_" + suffix), other.get("vpnconn_remote_" + suffix)
                if lan is not None and remote is not None and lan != remote:
                    raise Violation({"oracle": "nets-not-mirrored", "sides": sides, "view": view},
                                    f"tunnel {name}: lan_{suffix} {lan!r} of one side, remote_{suffix} {remote!r} of the other; spec {spec}", case)
                if lan is not None and remote is None:
                    labels.add("asym(local=%s):%s:lan_%s-without-remote(%s view)" % (spec["local"]["type"], sides, suffix, view))
        if left.get("vpnconn_key_type") != right.get("vpnconn_key_type") or left.get("vpnconn_psk") != right.get("vpnconn_psk"):
            raise Violation({"oracle": "auth-not-shared", "view": view},
                            f"tunnel {name}: key type / secret differ between the sides; spec {spec}", case)
        for key in ("vpnconn_psk_%s_id", "vpnconn_psk_%s_id_type"):
            if left.get(key % "own") != right.get(key % "foreign") or left.get(key % "foreign") != right.get(key % "own"):
                raise Violation({"oracle": "psk-ids-not-swapped", "view": view},
                                f"tunnel {name}: own/foreign ids of the sides are not swapped; spec {spec}", case)

    # the right hand dictionaries derived from the left hand ones
    try:
        local2, remote2, peer2 = tunnel._get_peer_variant(
            copy.deepcopy(spec["local"]), copy.deepcopy(spec["remote"]), copy.deepcopy(spec["peer"]))
    except Exception as error:
        raise Violation({"oracle": "peer-variant-raises", "error": type(error).__name__},
                        f"_get_peer_variant raised {error!r} for {spec}", case)
    derived = (local2.get("type"), remote2.get("type"), peer2.get("type"))
    wanted = (right_lan_type(spec["local"]["type"], spec["remote"]["type"]).lower(),
              RIGHT_REMOTE_TYPE[spec["local"]["type"]].lower(), "ip")
    if derived != wanted:
        raise Violation({"oracle": "peer-variant-types"}, f"_get_peer_variant gave {derived}, counterpart is {wanted}; spec {spec}", case)
    carried = [(peer2.get("nic"), spec["peer"]["nic"], "peer")]
    if spec["local"]["type"] == "nic":
        carried.append((remote2.get("nic"), spec["local"]["nic"], "remote"))
    if spec["remote"]["type"] == "custom" and spec["local"]["type"] != "custom":
        carried.append((local2.get("nic"), spec["remote"]["nic"], "local"))
    for got, want, which in carried:
        if got != want:
            raise Violation({"oracle": "peer-variant-nic", "which": which},
                            f"right {which} nic role {got!r}, the left side uses {want!r}; spec {spec}", case)

    # connectivity must not depend on the order of the nodes
    names = [vm["name"] for vm in case["vms"]]
    for a, b in itertools.combinations(names, 2):
        try:
            forth = tunnel.connects_nodes(net.nodes[a], net.nodes[b])
            back = tunnel.connects_nodes(net.nodes[b], net.nodes[a])
        except Exception as error:
            raise Violation({"oracle": "connects-raises", "error": type(error).__name__},
                            f"tunnel {name}: connects_nodes({a}, {b}) raised {error!r}; spec {spec}", case)
        if bool(forth) != bool(back):
            raise Violation({"oracle": "connects-order-dependent"},
                            f"tunnel {name}: connects_nodes({a}, {b}) = {forth} but ({b}, {a}) = {back}; spec {spec}", case)
        reference = reference_connects(case, spec, a, b)
        if bool(forth) != reference:
            raise Violation({"oracle": "connects-differs-from-reference", "kind": "missing" if reference else "spurious"},
                            f"tunnel {name}: connects_nodes({a}, {b}) = {forth}, nets/end points say {reference}; spec {spec}", case)
        ends = {spec["left"], spec["right"]}
        if {a, b} != ends:
            labels.add("third-connected" if reference else "third-unconnected")
        else:
            labels.add("ends-connected")


def distinguishable(case, spec):
    left_lan, right_lan = side_nets(case, spec)
    if left_lan is not None and left_lan == right_lan:
        return False
    auth = spec["auth"]
    if auth is not None and auth["type"] == "psk" and auth["left_id"] == auth["right_id"] != "":
        return False
    return True


def check(case, impl):
    """Returns (nontrivial, labels)."""
    labels = set()
    net = build_network(case, impl)
    main = [spec for spec in case["tunnels"] if spec["name"] == case["main"]][0]
    built = []
    for spec in case["tunnels"]:
        rejected = case["kind"] == "reject" and spec is main
        try:
            tunnel = build_tunnel(net, spec)
        except ValueError as error:
            if rejected:
                continue
            raise Violation({"oracle": "construct-raises", "error": "ValueError"},
                            f"valid configuration rejected with {error!r}: {spec}", case)
        except Exception as error:
            if rejected:
                raise Violation({"oracle": "unsupported-type-wrong-error", "position": case["position"], "error": type(error).__name__},
                                f"unsupported {case['position']} type gave {error!r} instead of ValueError: {spec}", case)
            raise Violation({"oracle": "construct-raises", "error": type(error).__name__},
                            f"valid configuration raised {error!r}: {spec}", case)
        if rejected:
            raise Violation({"oracle": "unsupported-type-accepted", "position": case["position"]},
                            f"unsupported {case['position']} type was accepted: {spec}", case)
        built.append((spec, tunnel))
    # all tunnels are checked after the last one was built
    for spec, tunnel in built:
        check_tunnel(case, spec, tunnel, net, labels)

    labels.add("nodes=%s" % len(case["vms"]))
    labels.add("tunnels=%s" % len(case["tunnels"]))
    if case["kind"] == "reject":
        labels.add("reject:%s" % case["position"])
        return True, labels
    for position in ("local", "remote", "peer"):
        labels.add("%s=%s" % (position, main[position]["type"]))
    auth = main["auth"]
    labels.add("auth=%s" % ("none" if auth is None else auth["type"] if auth["type"] != "psk" else
                            "psk-%s%s" % ("c" if auth["left_id"] else "e", "c" if auth["right_id"] else "e")))
    if main["preset"]:
        labels.add("route-preset")
    left_lan, right_lan = side_nets(case, main)
    if left_lan is not None and left_lan == right_lan:
        labels.add("lan-shared-by-both-sides")
    third = len(case["vms"]) >= 3
    inside = any(label.startswith("third-connected") for label in labels)
    nontrivial = distinguishable(case, main) and (third or inside)
    return nontrivial, labels


# ---------------------------------------------------------------------------

SELFTEST_NET = {
    "subnets": [{"net": "10.1.0.0", "mask": "255.255.0.0", "range": None}, {"net": "172.17.0.0", "mask": "255.255.0.0", "range": None},
                {"net": "10.2.0.0", "mask": "255.255.0.0", "range": None}, {"net": "172.18.0.0", "mask": "255.255.0.0", "range": None},
                {"net": "172.19.0.0", "mask": "255.255.0.0", "range": None}],
    "vms": [
        {"name": "vm1", "nics": [{"name": "b1", "subnet": 0, "host": 1}, {"name": "b2", "subnet": 1, "host": 1}],
         "roles": {"internet_nic": "b1", "lan_nic": "b2", "dmz_nic": "b2"}},
        {"name": "vm2", "nics": [{"name": "b1", "subnet": 2, "host": 1}, {"name": "b2", "subnet": 3, "host": 1}],
         "roles": {"internet_nic": "b1", "lan_nic": "b2", "dmz_nic": "b2"}},
        {"name": "vm3", "nics": [{"name": "b1", "subnet": 3, "host": 7}, {"name": "b2", "subnet": 4, "host": 257}],
         "roles": {"internet_nic": "b1", "lan_nic": "b2", "dmz_nic": "b1"}},
    ],
}


def _regression(kind, tunnels, **extra):
    case = {"kind": kind, "main": tunnels[-1]["name"], "tunnels": tunnels}
    case.update(extra)
    case.update(copy.deepcopy(SELFTEST_NET))
    return case


_BASIC = {"name": "vpn1", "left": "vm1", "right": "vm2", "preset": False, "local": {"type": "nic", "nic": "lan_nic"},
          "remote": {"type": "custom", "nic": "lan_nic"}, "peer": {"type": "ip", "nic": "internet_nic"}, "auth": None}

REGRESSIONS = [
    # test_configure_tunnel_between_vms_basic, with vm3 inside the right LAN
    _regression("valid", [_BASIC]),
    # psk with one empty id, point-to-site
    _regression("valid", [dict(_BASIC, local={"type": "internetip"},
                               auth={"type": "psk", "psk": "the secret", "left_id": "", "right_id": "arnold@vm2"})]),
    # road warrior as configure_roadwarrior_vpn_on_server builds it
    _regression("valid", [dict(_BASIC, remote={"type": "modeconfig", "modeconfig_ip": "172.30.0.1"},
                               peer={"type": "dynip", "nic": "internet_nic"}, auth={"type": "pubkey"})]),
    # forwarding tunnel as configure_vpn_route builds it on top of a site-to-site tunnel
    _regression("valid", [_BASIC, dict(_BASIC, name="vpn1fwd", preset=True,
                                       local={"type": "custom", "lnet": "172.17.0.0", "lmask": "255.255.0.0",
                                              "rnet": "172.19.0.0", "rmask": "255.255.0.0"})]),
    # site-to-point towards a third vm
    _regression("valid", [dict(_BASIC, right="vm3", remote={"type": "externalip"})]),
    # unsupported peer type
    _regression("reject", [dict(_BASIC, peer={"type": "static", "nic": "internet_nic"})], position="peer"),
]


def run(ctx):
    impl = load()

    def body(case):
        nontrivial, labels = check(case, impl)
        ctx.case(case, nontrivial, sorted(labels) + (["nontrivial"] if nontrivial else []))

    for case in (REGRESSIONS if ctx.shard == 0 else []):
        try:
            body(case)
        except Violation as violation:
            ctx.record_violation(violation, case)

    entries = catalogue()
    ctx.exhaustive_parts.append(
        "type product local x remote x peer x auth (3 x 3 x 2 x 6 = 108 combinations) and the %s (position, unsupported "
        "type string) entries are all run; networks, end points and nic roles are sampled per entry"
        % (len(entries) - 108))
    per_valid = 20 if ctx.tier == "quick" else 2000
    per_reject = 10 if ctx.tier == "quick" else 500
    for index, entry in enumerate(entries):
        if index % ctx.nshards != ctx.shard:
            continue
        count = per_valid if entry["kind"] == "valid" else per_reject
        ctx.hyp(cases(entry), body, count, name="entry%s" % index)


def replay(ctx, case):
    try:
        check(case, load())
    except Violation as violation:
        return [violation]
    return []
