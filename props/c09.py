"""C09 - workers get equivalent linked graph copies; lazy and eager parsing agree (E2 + E1 for lazy expansion)."""

import copy
import json

from vlib import ginspect, e1, sim as simmod
from vlib.core import Violation, canon
from props import c06

LEVEL = "exploration"
RULE = c06.RULE.replace(
    "Non-trivial = graph with >=2 workers, a multi-object test or a clone.",
    "Lazy inputs are expanded by a simulated traversal whose per-test durations are generated too. Non-trivial = >=2 "
    "workers (with a restricted worker or lazy expansion).")
ASSUMPTIONS = c06.ASSUMPTIONS + [
    "worker restrictions are evaluated with an own matcher on the vm variant names of a test's identity",
]


def judge(graph, ex, case, ctx):
    # (1) equivalent copies per worker, (2) symmetric and complete bridging with shared registers
    if not case["lazy"]:
        yield from ginspect.check_worker_copies(ex, case, ginspect.excluded_by_restrictions(ex))
    yield from ginspect.check_bridging(graph, case)
    if case["lazy"]:
        # (2b) progress registered by one worker is seen through every equivalent node
        sim = ginspect.LAST_SIM
        if sim is not None and sim.graph is graph:
            yield from e1.oracle_registers(sim, case)
        # (3) lazily expanded tests have the dependencies of the complete graph, and every test is expanded by someone
        eager_case = dict(case, lazy=False)
        try:
            eager_graph, _ = ginspect.obtain_graph(eager_case, ctx.scratch)
        except Exception as error:
            if type(error).__name__ in ginspect.EXPECTED_PARSE_ERRORS:
                ctx.label("lazy:no-eager-reference(empty product for some worker)")
                return
            raise
        eager_ex = ginspect.export(eager_graph)
        yield from ginspect.check_lazy_against_eager(ex, eager_ex, case)
        lazy_view, eager_view = ginspect.edge_view(ex), ginspect.edge_view(eager_ex)
        expanded = {ident for (_, ident) in lazy_view}
        for (worker, ident) in sorted(eager_view):
            if ident not in expanded:
                yield Violation({"oracle": "test-never-expanded-lazily"},
                                f"{ident} is in the complete graph (for {worker}) but no worker expanded it during the traversal", case)
    else:
        # (4) parsing the same input twice gives the same graph
        scenario = simmod.Scenario(case["tests"], case["vm_strs"], case["nets"], False, extra=case.get("extra"))
        cached = simmod._GRAPHS.pop(scenario.key(), None)
        try:
            again, swarms = simmod.build_graph(scenario)
        finally:
            if cached is not None:
                simmod._GRAPHS[scenario.key()] = cached
                simmod._mods["TestSwarm"].run_swarms = cached[1]
        second = ginspect.export(again)
        if canon(second["nodes"]) != canon(ex["nodes"]):
            first_names, second_names = set(ex["nodes"]), set(second["nodes"])
            detail = f"only in first {sorted(first_names - second_names)[:3]}, only in second {sorted(second_names - first_names)[:3]}"
            if first_names == second_names:
                differing = [n for n in first_names if canon(ex["nodes"][n]) != canon(second["nodes"][n])]
                detail = f"{len(differing)} nodes differ, e.g. {differing[:2]}"
            yield Violation({"oracle": "parse-not-deterministic"}, f"two parses of the same input differ: {detail}", case)


def generated_judge(graph, ex, case):
    if not case["lazy"]:
        yield from ginspect.check_worker_copies(ex, case, ginspect.excluded_by_restrictions(ex))
    yield from ginspect.check_bridging(graph, case)


def run(ctx):
    ginspect.run_graph_property(ctx, "C09", judge, quick=320, thorough=6400)
    # generated suites (G2): equivalent copies and complete bridging; lazy runs are compared with the known DAG
    from props import c07

    c07.run_generated_suites(ctx, also=generated_judge, compare=True, quick=48, thorough=1600)


def replay(ctx, case):
    if isinstance(case, dict) and case.get("part") == "generated-suite":
        from props import c07

        try:
            c07.check_generated(case, ctx.scratch, also=generated_judge, compare=True)
        except Violation as violation:
            return [violation]
        return []
    ginspect.simmod.setup()
    graph, error = ginspect.obtain_graph(case, ctx.scratch)
    if error is not None:
        return [Violation({"oracle": "lazy-expansion-raises", "error": type(error).__name__, "where": ginspect._where(error)}, repr(error), case)]
    ex = ginspect.export(graph)
    found = {}
    for violation in judge(graph, ex, case, ctx):
        found.setdefault(violation.key, violation)
    return list(found.values())
