"""C11 - command line selections and overrides mean what the documentation says.

The argument list of ``avocado manu`` / the cartesian_graph loader is turned by
``cmd_parser.params_from_cmd`` into a tests restriction string, per-vm
restriction strings and a dictionary of overrides.  The check generates argument
lists, computes what they are documented to mean with an own matcher over the
unrestricted universe of ``sets.cfg`` names (cross-checked against the plain
virttest Cartesian parser on an own rendering of the restrictions), and compares
with ``TestGraph.parse_flat_nodes(config["tests_str"], config["param_dict"])``.
"""

import os
import re
import sys

from hypothesis import strategies as st

from vlib.core import HarnessError, Violation

LEVEL = "exploration"
RULE = (
    "case = argument list built around a target test name of the sample suite: 0-1 primary restriction, 0-3 only= "
    "(',' / '..' / '.' forms cut from the target's variant names, sometimes foreign or unknown names), 0-2 no=, "
    "0-3 K=V overrides (existing test parameters or fresh keys, comma/space/'=' values, repeated keys, default_only*), "
    "only_vmX=/no_vmX=/vms=, nets scenarios (only_nets/no_nets/nets in a fixed relative order) and in ~1/5 of the "
    "cases a malformed token / unknown vm / unknown object, all interleaved by a drawn permutation; plus one "
    "metamorphic variant (permute, duplicate, merge only= into '..', merge no= into ',', no=x as set difference). "
    "Non-trivial = no error condition, non-empty selection and (>=2 restriction arguments or an override plus a "
    "restriction). Distinct = canonical JSON of the case."
)
ASSUMPTIONS = [
    "virttest.cartesian_config.Parser (third party) is trusted: it provides the unrestricted universes of sets.cfg, "
    "nets.cfg and vms.cfg names and cross-checks the own matcher on the own rendering of each restriction list",
    "the sample suite tp_folder of the tree under test (or of the baseline tree if the tree under test has none) "
    "is the configuration; HOME is a scratch directory so the overwrite configs are the shipped ones",
    "an only=/no= argument 'names a primary restriction' if one of its variant names is in main_restrictions",
    "repeated vms= / K=V arguments: the last one wins; repeated only_nets/no_nets: the last one wins (selftests)",
    "restriction values are syntactically valid Cartesian filters without whitespace; override values have no "
    "leading/trailing/double separators, quotes or '#'",
]

FALLBACK_SUITE = "/repo/tp_folder"
RESERVED_KEYS = {"name", "shortname", "dep", "vms", "nets", "only", "no", "default_only", "main_restrictions",
                 "cartgraph_verbose_level", "main_vm"}
IDENT = r"[A-Za-z0-9_][A-Za-z0-9_-]*"
RESTR_RE = re.compile(rf"^{IDENT}(\.{{1,2}}{IDENT})*(,{IDENT}(\.{{1,2}}{IDENT})*)*$")
KEY_RE = re.compile(r"^[A-Za-z0-9_]+$")


# ---------------------------------------------------------------------------
# own matcher (README: '.' immediately followed by, '..' AND, ',' OR)


def parse_restriction(value):
    return [[group.split(".") for group in alt.split("..")] for alt in value.split(",")]


def _contiguous(group, comps):
    size = len(group)
    return any(comps[i:i + size] == group for i in range(len(comps) - size + 1))


def matches(name, value):
    comps = name.split(".")
    return any(all(_contiguous(group, comps) for group in alt) for alt in parse_restriction(value))


def select(universe, lines):
    """Names of the universe satisfying every ``only`` and no ``no`` line."""
    selected = []
    for name in universe:
        if all((kind == "only") == matches(name, value) for kind, value in lines):
            selected.append(name)
    return selected


# ---------------------------------------------------------------------------
# the world: code under test + independent facts about the sample suite


class World:
    pass


_WORLD = None


def load():
    global _WORLD
    if _WORLD is not None:
        return _WORLD
    from vlib import env

    env.check_origin()
    env.quiet_logging()
    import avocado_i2n.params_parser as param
    from avocado.core.settings import settings

    suite = os.path.join(env.REPO, "tp_folder")
    if not os.path.isdir(os.path.join(suite, "configs")):
        suite = FALLBACK_SUITE
    settings.update_option("i2n.common.suite_path", suite)
    configs = os.path.join(suite, "configs")
    if param.custom_configs_dir() != configs:
        raise HarnessError(f"suite path not effective: {param.custom_configs_dir()} != {configs}")
    if not os.environ.get("HOME", "").startswith(env.SCRATCH_ROOT + "/"):
        raise HarnessError("HOME is not a scratch directory: %r" % os.environ.get("HOME"))

    import avocado_i2n.cmd_parser as cmd
    from avocado_i2n.cartgraph.graph import TestGraph
    from virttest import cartesian_config

    w = World()
    w.cmd, w.param, w.TestGraph, w.cartesian = cmd, param, TestGraph, cartesian_config
    w.configs = configs

    def parse(files, extra=""):
        parser = cartesian_config.Parser()
        for name in files:
            parser.parse_file(os.path.join(configs, name))
        if extra:
            parser.parse_string(extra)
        return list(parser.get_dicts())

    w.parse = parse
    tests = parse(["sets.cfg"])
    w.tests = [d["name"] for d in tests]
    if len(set(w.tests)) != len(w.tests) or len(w.tests) < 20:
        raise HarnessError("unexpected universe of sets.cfg")
    keys = sorted({k for d in tests for k in d})
    w.keys = [k for k in keys if re.match(r"^[a-z][a-z0-9_]*$", k) and k not in RESERVED_KEYS
              and not k.startswith(("only_", "no_", "default_only"))]
    base = parse(["groups-base.cfg", "sets-overwrite.cfg"])
    if len(base) != 1:
        raise HarnessError("groups-base.cfg is expected to give one dictionary")
    w.main_restrictions = base[0]["main_restrictions"].split()
    w.default_only = base[0].get("default_only", "all")
    guests = parse(["guest-base.cfg", "objects-overwrite.cfg"])
    if len(guests) != 1:
        raise HarnessError("guest-base.cfg is expected to give one dictionary")
    w.vms = guests[0]["vms"].split()
    w.vm_default = {vm: guests[0].get("default_only_" + vm, "") for vm in w.vms}
    w.vm_universe = {vm: [d["name"] for d in parse(["vms.cfg"], "only %s\n" % vm)] for vm in w.vms}
    w.vm_atoms = {vm: sorted({c for n in names for c in n.split(".") if re.match(r"^[A-Za-z][A-Za-z0-9_]*$", c)}
                             - {"vms", vm})
                  for vm, names in w.vm_universe.items()}
    w.nets = [(d["name"], d["shortname"]) for d in parse(["nets.cfg"])]
    _WORLD = w
    return w


def reference_names(w, cfg, lines):
    """Plain Cartesian parser on an own rendering of the restriction lines."""
    text = "".join("%s %s\n" % line for line in lines)
    return sorted(d["name"] for d in w.parse([cfg], text))


# ---------------------------------------------------------------------------
# the documented meaning of an argument list


def names_primary(w, value):
    return any(c in w.main_restrictions for c in re.split(r"[.,]+", value) if c)


def expectation(w, params):
    e = World()
    e.conds = []  # (kind, exception class name)
    e.tests_lines, e.primary = [], False
    e.kv = {}
    e.vm_lines = {vm: [] for vm in w.vms}
    e.vm_cmd = {vm: False for vm in w.vms}
    e.selected_vms = list(w.vms)
    e.nets_value, e.nets_from = None, None
    e.n_restr = 0
    nets_restr = None
    for token in params:
        key, sep, value = token.partition("=")
        if not sep or not KEY_RE.match(key):
            e.conds.append(("malformed", "ValueError"))
            continue
        if "\n" in value:
            raise HarnessError("newline in a value is outside the domain")
        if key in ("only", "no"):
            if not RESTR_RE.match(value):
                raise HarnessError(f"restriction outside the generated domain: {token!r}")
            e.tests_lines.append((key, value))
            e.primary = e.primary or names_primary(w, value)
            e.n_restr += 1
        elif key.startswith(("only_", "no_")):
            kind, obj = key.split("_", 1)
            if value and not RESTR_RE.match(value):
                raise HarnessError(f"restriction outside the generated domain: {token!r}")
            if obj == "nets":
                e.n_restr += 1
                if value:
                    if e.nets_from == "explicit":
                        e.conds.append(("nets-before-restriction", "ValueError"))
                    nets_restr = (kind, value)
                    chosen = [short for name, short in w.nets if (kind == "only") == matches(name, value)]
                    if not chosen:
                        e.conds.append(("nets-empty", "EmptyCartesianProduct"))
                else:
                    nets_restr = None
                    chosen = [short for name, short in w.nets]
                e.nets_value, e.nets_from = chosen, "restriction"
            elif obj in w.vms:
                e.n_restr += 1
                e.vm_cmd[obj] = True
                if value:
                    e.vm_lines[obj].append(f"{kind} {value}")
            elif obj.startswith(tuple(w.vms) + ("nets",)):
                e.conds.append(("unknown-object-prefixed", "ValueError"))
            else:
                e.conds.append(("unknown-object", "ValueError"))
        elif key == "vms":
            names = value.split(",")
            if any(name not in w.vms for name in names):
                e.conds.append(("unknown-vm", "ValueError"))
            else:
                e.selected_vms = names
        elif key == "nets":
            if nets_restr is not None:
                e.conds.append(("nets-after-restriction", "ValueError"))
            else:
                e.nets_value, e.nets_from = value.replace(",", " "), "explicit"
        else:
            e.kv[key] = value.replace(",", " ")
    e.used_default = not e.primary
    if e.used_default:
        default = e.kv.get("default_only", w.default_only)
        if default not in w.main_restrictions:
            e.conds.append(("bad-default", "ValueError"))
        else:
            e.tests_lines.append(("only", default))
    e.selection = sorted(select(w.tests, e.tests_lines))
    if not e.selection and ("bad-default", "ValueError") not in e.conds:
        e.conds.append(("empty-selection", "EmptyCartesianProduct"))
    for vm in w.vms:
        if not e.vm_cmd[vm]:
            default = e.kv.get("default_only_" + vm, w.vm_default[vm])
            if default:
                e.vm_lines[vm] = ["only " + default]
    return e


# ---------------------------------------------------------------------------
# running the code under test


def call(w, params):
    """params_from_cmd on a fresh config; undo what it leaks into the process."""
    config = {"params": list(params)}
    saved_path = list(sys.path)
    try:
        try:
            w.cmd.params_from_cmd(config)
        except Exception as error:  # noqa: the outcome is classified by the caller
            return None, error
    finally:
        sys.path[:] = saved_path
    return config, None


def lines_of(text):
    return sorted(line for line in text.split("\n") if line.strip())


def cheap_selection(w, case, params, what):
    """Selection of an argument list through params_from_cmd and the plain parser."""
    config, error = call(w, params)
    if error is not None:
        if type(error).__name__ == "EmptyCartesianProduct":
            return set(), None
        raise Violation({"oracle": "metamorphic", "how": what, "kind": "raises", "error": type(error).__name__},
                        f"{params} raised {error!r}", case)
    text = config["tests_str"]
    return {d["name"] for d in w.parse(["sets.cfg"], text)}, config


def check(case, w):
    params = list(case["params"])
    meta = case.get("meta")
    e = expectation(w, params)
    labels = []

    # the two oracles for the selection have to agree, else the harness is wrong
    reference = reference_names(w, "sets.cfg", e.tests_lines)
    if reference != e.selection:
        raise HarnessError(f"own matcher and plain parser disagree on {e.tests_lines}: {e.selection} vs {reference}")

    config, error = call(w, params)

    # --- documented error cases
    if e.conds:
        kinds = [kind for kind, _ in e.conds]
        allowed = sorted({exc for _, exc in e.conds})
        labels += ["error:" + kind for kind in sorted(set(kinds))]
        if error is None:
            raise Violation({"oracle": "error-case", "cond": kinds[0]},
                            f"{params}: expected {allowed} because of {kinds}, but the arguments were accepted: "
                            f"tests_str={config['tests_str']!r} vm_strs={config['vm_strs']} "
                            f"param_dict={config['param_dict']}", case)
        if type(error).__name__ not in allowed:
            raise Violation({"oracle": "error-case", "cond": kinds[0]},
                            f"{params}: expected {allowed} because of {kinds}, got {error!r}", case)
        return False, labels
    if error is not None:
        raise Violation({"oracle": "unexpected-exception", "stage": "params_from_cmd", "error": type(error).__name__},
                        f"{params}: valid arguments raised {error!r}", case)

    # --- overrides as parsed
    expected_dict = dict(e.kv)
    if e.nets_from == "explicit":
        expected_dict["nets"] = e.nets_value
    got_dict = dict(config["param_dict"])
    if e.nets_from == "restriction":
        got_nets = got_dict.pop("nets", None)
        if got_nets is None or sorted(got_nets.split()) != sorted(e.nets_value):
            raise Violation({"oracle": "nets-restriction", "kind": "wrong-suffixes"},
                            f"{params}: nets={got_nets!r}, expected the suffixes {e.nets_value}", case)
        labels.append("nets:restriction")
    elif e.nets_from == "explicit":
        labels.append("nets:explicit")
    if got_dict != expected_dict:
        raise Violation({"oracle": "param-dict", "kind": "differs"},
                        f"{params}: param_dict={config['param_dict']}, expected {expected_dict}", case)

    # --- the selected tests and the overrides in every one of them
    try:
        nodes = w.TestGraph.parse_flat_nodes(config["tests_str"], config["param_dict"])
    except Exception as error2:
        raise Violation({"oracle": "unexpected-exception", "stage": "parse_flat_nodes", "error": type(error2).__name__},
                        f"{params}: tests_str={config['tests_str']!r} raised {error2!r}", case)
    names = [node.params["name"] for node in nodes]
    compare_selection(case, params, names, e.selection, config["tests_str"], "selection")
    per_test = dict(e.kv)
    if e.nets_from:
        per_test["nets"] = config["param_dict"]["nets"]  # validated above
    for key in sorted(per_test):
        want = per_test[key]
        have = [node.params.get(key) for node in nodes]
        wrong = [names[i] for i, value in enumerate(have) if value != want]
        if wrong:
            kind = "some-tests" if len(wrong) < len(nodes) else "all-tests"
            raise Violation({"oracle": "override", "kind": kind},
                            f"{params}: {key}={want!r} expected in every test, differs in {wrong[:5]} "
                            f"({[v for v in have if v != want][:3]})", case)
    values = [value for _, value in e.tests_lines]
    if (all(kind == "only" for kind, _ in e.tests_lines) and len(e.selection) <= 12
            and (len(values) == 1 or all("," not in value for value in values))):
        # the single line form of the same restriction (re_str): all lines joined by AND
        single = "..".join(values)
        try:
            nodes1 = w.TestGraph.parse_flat_nodes(single, config["param_dict"])
        except Exception as error3:
            raise Violation({"oracle": "unexpected-exception", "stage": "parse_flat_nodes-single-line",
                             "error": type(error3).__name__}, f"{single!r} raised {error3!r}", case)
        compare_selection(case, params, [n.params["name"] for n in nodes1], e.selection, single,
                          "selection-single-line")
        labels.append("single-line")

    # --- the vms
    got_vms = sorted(config["vm_strs"].keys())
    if got_vms != sorted(set(e.selected_vms)):
        raise Violation({"oracle": "selected-vms", "kind": "keys"},
                        f"{params}: vm_strs has {got_vms}, selected are {sorted(set(e.selected_vms))}", case)
    probed = 0
    for vm in got_vms:
        got_lines = lines_of(config["vm_strs"][vm])
        if got_lines != sorted(e.vm_lines[vm]):
            if e.vm_cmd[vm]:
                kind = "default-added" if len(got_lines) > len(e.vm_lines[vm]) else "command-line-lost"
            else:
                kind = "default-wrong"
            raise Violation({"oracle": "vm-restriction", "kind": kind},
                            f"{params}: vm_strs[{vm}]={config['vm_strs'][vm]!r}, expected lines {sorted(e.vm_lines[vm])}",
                            case)
        if e.vm_cmd[vm] and probed < 1:
            probed += 1
            probe_vm(case, w, params, vm, config["vm_strs"][vm], e.vm_lines[vm])
            labels.append("vm-probed")

    # --- metamorphic variant
    if meta:
        labels.append("meta:" + meta.get("how", meta["kind"]))
        if meta["kind"] == "same":
            other, other_config = cheap_selection(w, case, meta["params"], meta["how"])
            if other_config is None or sorted(other) != sorted(names):
                raise Violation({"oracle": "metamorphic", "how": meta["how"], "kind": "selection-differs"},
                                f"{params} selects {sorted(names)} but {meta['params']} selects {sorted(other)}", case)
            other_vms = {vm: sorted(set(lines_of(text))) for vm, text in other_config["vm_strs"].items()}
            if other_vms != {vm: sorted(set(lines_of(text))) for vm, text in config["vm_strs"].items()}:
                raise Violation({"oracle": "metamorphic", "how": meta["how"], "kind": "vm-strs-differ"},
                                f"{params} -> {config['vm_strs']} but {meta['params']} -> {other_config['vm_strs']}", case)
            if other_config["param_dict"] != config["param_dict"]:
                raise Violation({"oracle": "metamorphic", "how": meta["how"], "kind": "param-dict-differs"},
                                f"{params} -> {config['param_dict']} but {meta['params']} -> "
                                f"{other_config['param_dict']}", case)
        elif meta["kind"] == "difference":
            x = meta["x"]
            without, _ = cheap_selection(w, case, params + ["no=" + x], "difference")
            within, _ = cheap_selection(w, case, params + ["only=" + x], "difference")
            if without != set(names) - within:
                raise Violation({"oracle": "metamorphic", "how": "difference", "kind": "not-set-difference"},
                                f"{params}: with no={x}: {sorted(without)}; without it {sorted(names)}; "
                                f"with only={x}: {sorted(within)}", case)
        else:
            raise HarnessError(f"unknown metamorphic kind {meta!r}")

    size = len(names)
    labels.append("selected:" + ("1" if size == 1 else "2-5" if size <= 5 else "6-20" if size <= 20 else ">20"))
    if e.used_default:
        labels.append("default-primary")
    if e.kv:
        labels.append("overrides")
    if any(e.vm_cmd.values()):
        labels.append("vm-restrictions")
    if sorted(set(e.selected_vms)) != sorted(w.vms):
        labels.append("vms=")
    nontrivial = e.n_restr >= 2 or (e.n_restr >= 1 and bool(e.kv))
    return nontrivial, labels


def compare_selection(case, params, names, expected, restriction, oracle):
    if len(set(names)) != len(names):
        raise Violation({"oracle": oracle, "kind": "duplicates"}, f"{params}: {sorted(names)}", case)
    if sorted(names) != expected:
        spurious, missing = sorted(set(names) - set(expected)), sorted(set(expected) - set(names))
        kind = "both" if spurious and missing else "spurious" if spurious else "missing"
        raise Violation({"oracle": oracle, "kind": kind},
                        f"{params} (restriction {restriction!r}): spurious {spurious[:6]} missing {missing[:6]} "
                        f"({len(names)} selected, {len(expected)} expected)", case)


_PROBED = {}


def probe_vm(case, w, params, vm, vm_str, expected_lines):
    """The vm variants the parsed vm string yields are those of the documented restriction."""
    # parsing the vm variants costs 0.2 s and depends only on these three values: do it once per process
    memo = (vm, vm_str, tuple(expected_lines))
    if memo in _PROBED:
        return
    _probe_vm(case, w, params, vm, vm_str, expected_lines)
    _PROBED[memo] = True


def _probe_vm(case, w, params, vm, vm_str, expected_lines):
    lines = [tuple(line.split(" ", 1)) for line in expected_lines]
    expected = sorted(select(w.vm_universe[vm], lines))
    reference = reference_names(w, "vms.cfg", [("only", vm)] + lines)
    if reference != expected:
        raise HarnessError(f"own matcher and plain parser disagree on {vm} {lines}: {expected} vs {reference}")
    try:
        objects = w.TestGraph.parse_flat_objects(vm, "vms", vm_str, {})
    except Exception as error:
        if not expected and type(error).__name__ == "EmptyCartesianProduct":
            return
        raise Violation({"oracle": "unexpected-exception", "stage": "parse_flat_objects", "error": type(error).__name__},
                        f"{params}: vm_strs[{vm}]={vm_str!r} raised {error!r}", case)
    got = sorted(obj.params["name"] for obj in objects)
    if got != expected:
        kind = "spurious" if set(got) - set(expected) else "missing"
        raise Violation({"oracle": "vm-variants", "kind": kind},
                        f"{params}: vm_strs[{vm}]={vm_str!r} gives {got}, expected {expected}", case)


# ---------------------------------------------------------------------------
# generator

MALFORMED = ["ccc", "=x", "a-b=c", "only", "only tutorial1", " x=1", "a.b=c", "-k=v", "", "no:files"]
UNKNOWN_VMS = ["vmX", "vm4", "vm1,vm9", "", "vm11", "vm2,"]
UNKNOWN_OBJECTS = ["only_something=restr", "no_vm4=x", "only_vm=Fedora", "no_images=x", "only_net=cluster1",
                   "only_vmX=", "only_tests=all"]
PREFIXED_OBJECTS = ["only_vm12=Fedora", "no_vm1x=CentOS", "only_vm22=Win7", "only_netsx=cluster1", "only_vm3_b=Kali"]
UNKNOWN_ATOMS = ["zzz", "nonexistent_variant", "tutoria1"]
NETS_RESTR = ["cluster1", "cluster1..net6,net7", "localhost", "net6", "cluster2.net8", "net1,net2", "cluster2",
              "net6..cluster1", "localhost.net7", "cluster1..net6,localhost,net7,net9", "net9"]
NETS_EXPLICIT = ["net1", "net1,net2", "cluster1.net6,net7", "net0"]
WORD_ALPHABET = "abcxyzXYZ0189_./:+-"


def strategy(w):
    tests = w.tests
    in_default = set(select(tests, [("only", w.default_only)]))

    atoms = sorted({c for n in tests for c in n.split(".")})

    @st.composite
    def group(draw, comps, junk):
        if draw(st.sampled_from(junk)):
            return ".".join(draw(st.lists(st.sampled_from(atoms), min_size=2, max_size=2)))
        start = draw(st.integers(0, len(comps) - 1))
        size = min(draw(st.sampled_from([1, 1, 1, 1, 2, 2, 3])), len(comps) - start)
        return ".".join(comps[start:start + size])

    @st.composite
    def alternative(draw, comps, junk):
        count = draw(st.sampled_from([1, 1, 1, 2, 2, 3]))
        return "..".join(draw(group(comps, junk)) for _ in range(count))

    RARE, SOME = [False] * 39 + [True], [False] * 7 + [True]

    @st.composite
    def restriction(draw, comps, pure=False, junk=RARE):
        alts = [draw(alternative(comps, junk))]
        for _ in range(0 if pure else draw(st.sampled_from([0, 0, 0, 1, 1, 2]))):
            if draw(st.sampled_from([True, False, False, False])):
                alts.append(draw(st.sampled_from(UNKNOWN_ATOMS)))
            else:
                alts.append(draw(alternative(draw(st.sampled_from(tests)).split("."), SOME)))
        return ",".join(draw(st.permutations(alts)))

    word = st.text(alphabet=WORD_ALPHABET, min_size=1, max_size=5)

    @st.composite
    def override_value(draw):
        words = draw(st.lists(word, min_size=0, max_size=3))
        seps = [draw(st.sampled_from([",", ",", " "])) for _ in words]
        text = "".join(w_ + s for w_, s in zip(words, seps))[:-1] if words else ""
        if words and draw(st.sampled_from([True] + [False] * 7)):
            text += "=" + draw(word)
        return text

    fresh_key = st.builds(lambda head, tail: head + tail, st.sampled_from(["x", "zz_", "X", "q9", "file_contents"]),
                          st.text(alphabet="abcdefgh0123456789_", min_size=0, max_size=5))

    @st.composite
    def vm_value(draw, vm):
        atoms = w.vm_atoms[vm]
        form = draw(st.integers(0, 9))
        if form <= 3:
            return draw(st.sampled_from(atoms))
        if form == 4:
            return ""
        if form == 5:
            return ",".join(draw(st.lists(st.sampled_from(atoms), min_size=2, max_size=3)))
        if form == 6:
            return "..".join(draw(st.lists(st.sampled_from(atoms), min_size=2, max_size=2)))
        if form == 7:
            comps = draw(st.sampled_from(w.vm_universe[vm])).split(".")
            comps = [c for c in comps if re.match(r"^[A-Za-z][A-Za-z0-9_]*$", c)]
            start = draw(st.integers(0, len(comps) - 2))
            return ".".join(comps[start:start + 2])
        if form == 8:
            other = draw(st.sampled_from([v for v in w.vms if v != vm] or [vm]))
            return draw(st.sampled_from(w.vm_atoms[other]))
        return draw(st.sampled_from(w.vm_default[vm] and [w.vm_default[vm]] or atoms))

    @st.composite
    def cases(draw):
        # the default primary set is small: aim at it in about a quarter of the cases
        target = draw(st.sampled_from(tests + sorted(in_default) * 8))
        comps = target.split(".")
        sel_args, kv_args, vm_args, err_args = [], [], [], []

        # tests restrictions
        single = draw(st.sampled_from([True] + [False] * 9))
        if single:
            # one only= argument: alternatives of "<primary>..<groups>" around several targets
            alts = []
            for name in [target] + draw(st.lists(st.sampled_from(tests), max_size=2)):
                parts = name.split(".")
                alts.append("..".join(draw(st.permutations([parts[0], draw(alternative(parts[1:], [False]))]))))
            sel_args.append("only=" + ",".join(alts))
        elif draw(st.sampled_from([True, False] if target in in_default else [True] * 19 + [False])):
            prim = comps[0]
            if ".".join(comps[:2]) in w.main_restrictions and draw(st.booleans()):
                prim = ".".join(comps[:2])
            if draw(st.sampled_from([True, False, False, False, False])):
                prim = draw(st.permutations([prim, draw(group(comps[1:], [False]))]))
                prim = "..".join(prim)
            sel_args.append("only=" + prim)
        # a primary set alone selects up to 65 tests (20 ms each): mostly narrow it further
        for _ in range(0 if single else draw(
                st.sampled_from([0, 1, 1, 2, 2, 3] if target in in_default else [0] + [1, 1, 2, 2, 3] * 3))):
            source = comps[1:] if draw(st.sampled_from([True, True, True, False])) else comps
            sel_args.append("only=" + draw(restriction(source, pure=draw(st.booleans()))))
        for _ in range(0 if single else draw(st.sampled_from([0, 0, 1, 1, 2]))):
            other = draw(st.sampled_from(tests)).split(".")
            if draw(st.sampled_from([True] + [False] * 9)):
                sel_args.append("no=" + other[0])
            else:
                sel_args.append("no=" + draw(restriction(other[1:], pure=draw(st.booleans()), junk=SOME)))
        if not single and draw(st.sampled_from([True] + [False] * 19)):
            sel_args.append("only=" + draw(restriction(draw(st.sampled_from(tests)).split(".")[1:])))

        # overrides
        used_keys = []
        for _ in range(draw(st.sampled_from([0, 1, 1, 2, 3]))):
            choice = draw(st.integers(0, 9))
            if used_keys and choice == 0:
                key = draw(st.sampled_from(used_keys))
            elif choice <= 5:
                key = draw(st.sampled_from(w.keys))
            else:
                key = draw(fresh_key)
            used_keys.append(key)
            kv_args.append(key + "=" + draw(override_value()))
        special = draw(st.integers(0, 19))
        if special == 0:
            kv_args.append("default_only=" + draw(st.sampled_from(w.main_restrictions)))
        elif special == 1:
            kv_args.append("default_only=" + draw(st.sampled_from(["nonminimal", "tutorial1", "quicktest", "bogus"])))
        elif special == 2:
            vm = draw(st.sampled_from(w.vms))
            kv_args.append(f"default_only_{vm}=" + draw(st.sampled_from(w.vm_atoms[vm])))

        # objects
        for vm in w.vms:
            if draw(st.sampled_from([True, False, False, False])):
                for _ in range(draw(st.sampled_from([1, 1, 2]))):
                    kind = draw(st.sampled_from(["only", "only", "only", "no"]))
                    vm_args.append(f"{kind}_{vm}=" + draw(vm_value(vm)))
        for _ in range(draw(st.sampled_from([0] * 14 + [1] * 5 + [2]))):
            subset = draw(st.lists(st.sampled_from(w.vms), min_size=1, max_size=len(w.vms) + 1))
            vm_args.append("vms=" + ",".join(subset))

        # nets: the relative order of these is part of the scenario
        scenario = draw(st.sampled_from(["none"] * 14 + ["restr", "restr", "explicit", "restr-then-explicit",
                                                         "explicit-then-restr", "empty-then-explicit"]))
        nets_args = []
        restr = lambda: draw(st.sampled_from(["only", "only", "no"])) + "_nets=" + draw(
            st.sampled_from(NETS_RESTR + NETS_RESTR + ["zzz", ""]))
        strict = lambda: draw(st.sampled_from(["only", "no"])) + "_nets=" + draw(st.sampled_from(NETS_RESTR))
        explicit = lambda: "nets=" + draw(st.sampled_from(NETS_EXPLICIT))
        if scenario == "restr":
            nets_args = [restr() for _ in range(draw(st.sampled_from([1, 2, 2])))]
        elif scenario == "explicit":
            nets_args = [explicit() for _ in range(draw(st.sampled_from([1, 1, 2])))]
        elif scenario == "restr-then-explicit":
            nets_args = [strict(), explicit()]
        elif scenario == "explicit-then-restr":
            nets_args = [explicit(), strict()]
        elif scenario == "empty-then-explicit":
            nets_args = [draw(st.sampled_from(["only_nets=", "no_nets="])), explicit()]

        # documented rejections
        if draw(st.sampled_from([True] + [False] * 5)):
            for _ in range(draw(st.sampled_from([1, 1, 1, 2]))):
                family = draw(st.integers(0, 9))
                if family <= 3:
                    err_args.append(draw(st.sampled_from(MALFORMED)))
                elif family <= 5:
                    err_args.append("vms=" + draw(st.sampled_from(UNKNOWN_VMS)))
                elif family <= 8:
                    err_args.append(draw(st.sampled_from(UNKNOWN_OBJECTS)))
                else:
                    err_args.append(draw(st.sampled_from(PREFIXED_OBJECTS)))

        # interleave, keeping the nets arguments in their relative order
        tagged = [(a, False) for a in sel_args + kv_args + vm_args + err_args] + [(a, True) for a in nets_args]
        order = draw(st.permutations(list(range(len(tagged)))))
        mixed = [tagged[i] for i in order]
        nets_iter = iter(nets_args)
        params = [next(nets_iter) if is_net else a for a, is_net in mixed]
        case = {"params": params}

        # one metamorphic variant on top
        if not err_args:
            restr_idx = [i for i, p in enumerate(params)
                         if re.match(r"^(only|no)(_(%s))?=" % "|".join(w.vms), p)]
            only_pure = [i for i, p in enumerate(params) if p.startswith("only=") and "," not in p]
            nos = [i for i, p in enumerate(params) if p.startswith("no=")]
            options = ["difference"]
            if len(restr_idx) >= 2:
                options += ["permute", "permute"]
            if restr_idx:
                options.append("duplicate")
            if len(only_pure) >= 2:
                options += ["merge-only", "merge-only", "merge-only"]
            if len(nos) >= 2:
                options += ["merge-no", "merge-no"]
            how = draw(st.sampled_from(options))
            if how == "permute":
                new_order = draw(st.permutations(restr_idx))
                variant = list(params)
                for src, dst in zip(new_order, restr_idx):
                    variant[dst] = params[src]
                case["meta"] = {"kind": "same", "how": how, "params": variant}
            elif how == "duplicate":
                idx = draw(st.sampled_from(restr_idx))
                where = draw(st.integers(0, len(params)))
                variant = list(params)
                variant.insert(where, params[idx])
                case["meta"] = {"kind": "same", "how": how, "params": variant}
            elif how in ("merge-only", "merge-no"):
                pool = only_pure if how == "merge-only" else nos
                first, second = draw(st.permutations(pool))[:2]
                joiner = ".." if how == "merge-only" else ","
                merged = params[first] + joiner + params[second].split("=", 1)[1]
                variant = [merged if i == first else p for i, p in enumerate(params) if i != second]
                case["meta"] = {"kind": "same", "how": how, "params": variant}
            else:
                x = draw(restriction(draw(st.sampled_from([comps, draw(st.sampled_from(tests)).split(".")]))[1:]))
                primary = any(names_primary(w, p.split("=", 1)[1]) for p in params if p.startswith(("only=", "no=")))
                if primary or not names_primary(w, x):
                    case["meta"] = {"kind": "difference", "x": x}
        return case

    return cases()


# ---------------------------------------------------------------------------

REGRESSIONS = [
    # README examples
    {"params": ["only=leaves", "only=tutorial2", "no=files"], "meta": {"kind": "difference", "x": "names"}},
    {"params": ["only=normal..tutorial2", "only=names,files"]},
    {"params": ["only=minimal", "only=quicktest", "file_contents=testing"],
     "meta": {"kind": "same", "how": "merge-only", "params": ["only=minimal..quicktest", "file_contents=testing"]}},
    {"params": ["only=tutorial2..names,quicktest.tutorial2.files", "only_vm1=CentOS", "only_vm2="]},
    # selftests
    {"params": ["aaa=bbb", "only_vm1=Fedora", "only_vm2=Win10", "vms=vm2", "only_vm2=Win7"]},
    {"params": ["aaa=bbb", "only_nets=cluster1", "only_nets=cluster1..net6,net7",
                "no_nets=cluster1..net6,localhost,net7,net9"]},
    {"params": ["aaa=bbb", "ccc"]},
    {"params": ["only=install"]},
    {"params": ["only_nets=cluster1", "nets=net1,net2"]},
    {"params": ["default_only=nonminimal"]},
    {"params": ["vms=vmX"]},
    {"params": ["only_something=restr"]},
    # rejections that were observed to be missing while building this check
    {"params": ["only_vm12=Fedora"]},
    {"params": ["nets=net1,net2", "only_nets=cluster1"]},
]


def run(ctx):
    w = load()

    def body(case):
        nontrivial, labels = check(case, w)
        ctx.case(case, nontrivial, labels + (["nontrivial"] if nontrivial else []))

    for case in (REGRESSIONS if ctx.shard == 0 else []):
        try:
            body(case)
        except Violation as violation:
            ctx.record_violation(violation, case)
    ctx.hyp(strategy(w), body, ctx.budget(2000, 60000), name="cmdline")
    run_composite_part(ctx)


# ---------------------------------------------------------------------------
# overrides reach every parsed test: also the composite (graph) nodes and their setup, and also for keys that the
# user's overwrite configuration touches

COMPOSITE_KEYS = ["original_test_data_path", "control_file", "additional_deployment_dir", "other_tests_dirs",
                  "file_contents", "kill_timeout", "verif_fresh_key", "test_timeout", "host_dhcp_service"]
COMPOSITE_SELECTIONS = ["normal..tutorial1", "minimal..tutorial2", "leaves..tutorial3", "normal..tutorial_gui..client_noop"]


def composite_strategy():
    from hypothesis import strategies as st

    value = st.sampled_from(["/srv/testdata/", "custom", "a,b", "42", "x y", "/opt/dir/"])
    return st.fixed_dictionaries({
        "part": st.just("composite"),
        "selection": st.sampled_from(COMPOSITE_SELECTIONS),
        "overrides": st.lists(st.tuples(st.sampled_from(COMPOSITE_KEYS), value), min_size=1, max_size=3,
                              unique_by=lambda t: t[0]),
        "nets": st.sampled_from(["net1", "net1 net2"]),
    })


def check_composite(case):
    from vlib import sim as simmod

    mods = simmod.setup()
    from avocado_i2n import cmd_parser

    params = ["only=" + case["selection"], "nets=" + case["nets"].replace(" ", ",")]
    params += [f"{k}={v}" for k, v in case["overrides"]]
    config = {"params": params}
    cmd_parser.params_from_cmd(config)
    graph = mods["TestGraph"].parse_object_trees(None, config["tests_str"], "", dict(config["vm_strs"]),
                                                 dict(config["param_dict"]))
    nodes = [n for n in graph.nodes if not n.is_shared_root()]
    for key, value in case["overrides"]:
        expected = value.replace(",", " ")
        for node in nodes:
            got = node.params.get(key)
            if got != expected:
                kind = "setup" if "internal" in node.params["name"] or "original" in node.params["name"] else "selected"
                raise Violation({"oracle": "override-not-in-composite-node", "node": kind},
                                f"{key}={value!r} on the command line, but {node.params['shortname'][:70]} has {key}={got!r}", case)
    return len(nodes)


def run_composite_part(ctx):
    def body(case):
        count = check_composite(case)
        ctx.case(case, True, ["composite", f"composite:nodes<={(count // 5 + 1) * 5}"])

    ctx.hyp(composite_strategy(), body, ctx.budget(64, 2000), name="composite", shrink=(ctx.tier == "thorough"))


def replay(ctx, case):
    if isinstance(case, dict) and case.get("part") == "composite":
        try:
            check_composite(case)
        except Violation as violation:
            return [violation]
        return []
    return _replay_cmdline(ctx, case)


def _replay_cmdline(ctx, case):
    try:
        check(case, load())
    except Violation as violation:
        return [violation]
    return []
