"""C13 part S: the real transport layer (QCOW2ImageTransfer + TransferOps) with fake, end-point-tagged remote sessions.

The enumerated parts of c13.py stub the transport; here the real one runs, and only remote login, remote hashing
and scp are replaced.  Sources are remote workers of two gateways, several of them behind the same gateway (same
shell host, different forwarded ports), which is where a wrongly shared session would contact the wrong source.
"""

import os

from hypothesis import strategies as st

from vlib.core import Violation

WORKERS = {
    "cluster1.net6": {"gateway": "cluster1.net.lan", "host": "1", "port": "221"},
    "cluster1.net7": {"gateway": "cluster1.net.lan", "host": "2", "port": "222"},
    "cluster1.net8": {"gateway": "cluster1.net.lan", "host": "3", "port": "223"},
    "cluster2.net6": {"gateway": "cluster2.net.lan", "host": "1", "port": "221"},
    "cluster2.net7": {"gateway": "cluster2.net.lan", "host": "2", "port": "222"},
}
SWARM = "/mnt/local/images/swarm"
SHARED = "/mnt/local/images/shared"
STATES = ["launch", "other", "third"]


def endpoint(wid):
    return f"{WORKERS[wid]['gateway']}:{WORKERS[wid]['port']}"


def relation(own, wid):
    return "swarm" if WORKERS[own]["gateway"] == WORKERS[wid]["gateway"] else "cluster"


@st.composite
def cases(draw):
    own = draw(st.sampled_from(sorted(WORKERS)))
    others = [w for w in sorted(WORKERS) if w != own]
    sources = draw(st.lists(st.sampled_from(others), min_size=1, max_size=4, unique=True))
    scope = ["own"] if draw(st.integers(0, 4)) else []
    scope += draw(st.lists(st.sampled_from(["swarm", "cluster", "shared"]), unique=True, min_size=1))
    remote_states = {w: draw(st.lists(st.sampled_from(STATES), unique=True)) for w in sources}
    local = draw(st.lists(st.sampled_from(STATES), unique=True, max_size=2))
    ops = draw(st.lists(st.tuples(st.sampled_from(["show", "get", "get", "show"]), st.sampled_from(STATES)), min_size=1, max_size=4))
    return {"part": "sessions", "own": own, "sources": sources, "scope": scope, "remote": remote_states, "local": local,
            "ops": [list(o) for o in ops]}


class FakeSession:
    def __init__(self, end, world):
        self.endpoint = end
        self.world = world

    def cmd_status_output(self, command, *args, **kwargs):
        self.world["commands"].append((self.endpoint, command))
        states = self.world["by_endpoint"].get(self.endpoint)
        if command.startswith("ls ") and states is not None:
            return 0, " ".join(s + ".qcow2" for s in states)
        return 2, "No such file or directory"

    def cmd_output(self, command, *args, **kwargs):
        return self.cmd_status_output(command)[1]

    def cmd(self, command, *args, **kwargs):
        return self.cmd_status_output(command)[1]

    def close(self):
        pass


def check(case):
    from vlib import env

    env.check_origin()
    env.quiet_logging()
    from avocado_i2n.states import pool
    from virttest.utils_params import Params

    world = {"commands": [], "by_endpoint": {endpoint(w): list(s) for w, s in case["remote"].items()},
             "logins": [], "copies": [], "sessions_for": []}
    own = case["own"]
    params = Params({
        "vms": "vm1", "images": "image1", "object_type": "images", "object_id": "vm1-abc", "object_name": "vm1/image1",
        "image_name": "image1", "image_format": "qcow2", "swarm_pool": SWARM, "shared_pool": SHARED,
        "vms_base_dir": "/mnt/local/images", "images_base_dir": "/mnt/local/images",
        "pool_scope": " ".join(case["scope"]),
        "nets": own, "nets_gateway": WORKERS[own]["gateway"], "nets_host": WORKERS[own]["host"],
        "nets_shell_host": WORKERS[own]["gateway"], "nets_shell_port": WORKERS[own]["port"],
        "nets_shell_client": "ssh", "nets_username": "root", "nets_password": "x", "nets_shell_prompt": "#",
        "nets_file_transfer_client": "scp", "nets_file_transfer_port": WORKERS[own]["port"],
    })
    for wid in case["sources"]:
        spec = WORKERS[wid]
        for key, value in (("nets_gateway", spec["gateway"]), ("nets_host", spec["host"]), ("nets_shell_host", spec["gateway"]),
                           ("nets_shell_port", spec["port"]), ("nets_file_transfer_port", spec["port"]),
                           ("nets_shell_client", "ssh"), ("nets_username", "root"), ("nets_password", "x"),
                           ("nets_shell_prompt", "#"), ("nets_file_transfer_client", "scp")):
            params[f"{key}_{wid}"] = value
    locations = " ".join(f"{w}:{SWARM}" for w in case["sources"])

    local_states = list(case["local"])

    class Backend(pool.SourcedStateBackend):
        @classmethod
        def _show(cls, p, object=None):
            return list(local_states)

        @classmethod
        def _get(cls, p, object=None):
            pass

    def remote_login(client, host, port, *args, **kwargs):
        world["logins"].append(f"{host}:{port}")
        return FakeSession(f"{host}:{port}", world)

    def hash_file(session, path, *args, **kwargs):
        world["commands"].append((session.endpoint, "hash " + path))
        return "remote-hash"

    def copy_files_from(host, client, user, password, port, remote_path, local_path, *args, **kwargs):
        world["copies"].append((f"{host}:{port}", remote_path))

    original_get_session = pool.TransferOps.get_session.__func__

    def get_session(cls, host, p):
        session = original_get_session(cls, host, p)
        world["sessions_for"].append((host, getattr(session, "endpoint", None)))
        return session

    class FakeQemuImg:
        def __init__(self, *args, **kwargs):
            pass

        def info(self, *args, **kwargs):
            return "{}"  # no backing file: chains of length one

    saved = (pool.remote.remote_login, pool.ops.hash_file, pool.remote.copy_files_from, pool.TransferOps.get_session)
    saved_qemu = pool.QemuImg
    pool.QemuImg = FakeQemuImg
    pool.remote.remote_login, pool.ops.hash_file, pool.remote.copy_files_from = remote_login, hash_file, copy_files_from
    pool.TransferOps.get_session = classmethod(get_session)
    pool.TransferOps._session_cache = {}
    permitted = [w for w in case["sources"] if relation(own, w) in case["scope"]]
    try:
        for op, state in case["ops"]:
            before = len(world["sessions_for"])
            call = params.copy()
            if op == "show":
                call["show_location"] = locations
                try:
                    got = Backend.show(call, None)
                except Exception as error:
                    raise Violation({"oracle": "sessions-show-raises", "error": type(error).__name__}, repr(error), case)
                allowed = set(local_states if "own" in case["scope"] else [])
                for wid in permitted:
                    allowed |= set(case["remote"][wid])
                if set(got) - allowed:
                    raise Violation({"oracle": "sessions-state-reported-from-unpermitted-source"},
                                    f"show reported {sorted(got)}, local {local_states}, permitted sources {permitted} hold "
                                    f"{[case['remote'][w] for w in permitted]}", case)
            else:
                call["get_state"] = state
                call["get_location"] = locations
                try:
                    Backend.get(call, None)
                except Exception as error:
                    # a missing state in every permitted source is an error the real code raises on its own
                    if not any(state in case["remote"][w] for w in permitted) and state not in local_states:
                        continue
                    raise Violation({"oracle": "sessions-get-raises", "error": type(error).__name__}, repr(error), case)
            for wid, used in world["sessions_for"][before:]:
                if wid not in permitted:
                    raise Violation({"oracle": "sessions-unpermitted-source-contacted", "op": op},
                                    f"{op}: a session for {wid} was requested although only {permitted} are permitted", case)
                if used != endpoint(wid):
                    raise Violation({"oracle": "sessions-wrong-end-point", "op": op},
                                    f"{op}: the commands for source {wid} ({endpoint(wid)}) went through a session to {used}", case)
    finally:
        pool.remote.remote_login, pool.ops.hash_file, pool.remote.copy_files_from, pool.TransferOps.get_session = saved
        pool.QemuImg = saved_qemu
        pool.TransferOps._session_cache = {}
    same_gateway = len({WORKERS[w]["gateway"] for w in permitted}) < len(permitted)
    return len(permitted) >= 2 and same_gateway


def run(ctx):
    def body(case):
        nontrivial = check(case)
        ctx.case(case, nontrivial, ["S:sessions"] + (["S:two-sources-one-gateway"] if nontrivial else []))

    ctx.hyp(cases(), body, ctx.budget(1600, 60000), name="sessions")
