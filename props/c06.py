"""C06 - the parsed dependency graph is well formed (E2 graph inspector)."""

from vlib import ginspect

LEVEL = "exploration"
RULE = (
    "case = selection (grammar over the suite's test sets and tests, one or two alternatives, dotted or multi-line) x "
    "per-vm variant restriction (default, other variant, none, positive/negative) x worker set (lxc, serial, "
    "restricted nets, remote clusters, mixed) x eager parsing or lazy expansion by a traversal; inputs with an empty "
    "Cartesian product are counted, not judged; plus generated suites whose setup DAG (depth, fan-out, multi-object "
    "tests, multi-producer dependencies) is drawn at random. Non-trivial = graph with >=2 workers, a multi-object test or a clone. "
    "Distinct = canonical JSON of the input."
)
ASSUMPTIONS = [
    "graphs are parsed with the real parser (third-party Cartesian parser memoised, self-checked); lazy inputs are "
    "expanded by a simulated all-PASS traversal (E1 seams)",
    "every selection names a primary test set, as the command line parser guarantees",
    "inputs whose estimated size exceeds a bound are skipped and counted",
]


def judge(graph, ex, case, ctx):
    yield from ginspect.check_structure(graph, ex, case)


def run(ctx):
    ginspect.run_graph_property(ctx, "C06", judge)
    # generated suites with random setup DAGs (G2): the same structural invariants
    from props import c07

    c07.run_generated_suites(ctx, also=lambda graph, ex, case: ginspect.check_structure(graph, ex, case),
                             compare=False, quick=48, thorough=2400)


def replay(ctx, case):
    from vlib.core import Violation

    if isinstance(case, dict) and case.get("part") == "generated-suite":
        from props import c07

        try:
            c07.check_generated(case, ctx.scratch, also=lambda graph, ex, c: ginspect.check_structure(graph, ex, c), compare=False)
        except Violation as violation:
            return [violation]
        return []

    ginspect.simmod.setup()
    graph, error = ginspect.obtain_graph(case, ctx.scratch)
    if error is not None:
        return [Violation({"oracle": "lazy-expansion-raises", "error": type(error).__name__, "where": ginspect._where(error)}, repr(error), case)]
    ex = ginspect.export(graph)
    found = {}
    for violation in judge(graph, ex, case, ctx):
        found.setdefault(violation.key, violation)
    return list(found.values())
