"""C20 - manual steps act once per selected vm and worker, in the given order.

The real command line parser, Manu.run's chain loop, the intertest_setup tools, graph parsing and traversal run at
the E1 seams (model executor, model state control, job seam of the selftests) on a virtual clock.
"""

import re

from hypothesis import strategies as st

from vlib import sim as simmod, toolsim, e1
from vlib.core import Violation, HarnessError

LEVEL = "exploration"
RULE = (
    "case = chain of 1-4 manual steps (repetitions allowed) over {check,get,set,unset,push,pop,boot,shutdown,download,upload,control,"
    "create,clean,collect,noop} x vm selection (vms=, per-vm variant restrictions incl. none) x worker set (incl. "
    "workers whose restrictions exclude a selected vm variant) x optional failing step (all its tests FAIL/ERROR) or "
    "raising step (single worker) at any position x extra parameters; run through Manu.run. Non-trivial = >=2 steps "
    "or >=2 workers or a failing/raising step. Distinct = canonical JSON."
)
ASSUMPTIONS = e1.ASSUMPTIONS[:3] + [
    "the job is the selftests' stand-in (intertest_setup.new_job seam); worker start is a no-op",
    "chains (a step may occur more than once) do not contain start/stop/run/list/update/unittest/develop",
    "a raising step is only injected with a single worker, because the traversal coroutines of other workers would "
    "otherwise be left pending in the shared event loop",
]

PER_VM = {"check": "check", "get": "get", "set": "set", "unset": "unset", "push": "push", "pop": "pop",
          "create": "set", "clean": "unset", "collect": "get"}
MULTI_VM = {"boot": "boot", "shutdown": "shutdown", "download": "download", "upload": "upload", "control": "run"}
REUSE = {
    "create": {"set_state_images": "root", "set_mode_images": "af", "check_mode_images": "rr", "pool_scope": "own"},
    "clean": {"unset_state_images": "root", "unset_mode_images": "fa", "check_mode_images": "rf", "pool_scope": "own"},
    "collect": {"get_state_images": "root", "get_mode_images": "ii", "check_mode_images": "rr",
                "pool_scope": "swarm cluster shared"},
}
STEPS = sorted(PER_VM) + sorted(MULTI_VM) + ["noop"]
VARIANTS = {"vm1": ["CentOS", "Fedora"], "vm2": ["Win10", "Win7"], "vm3": ["Ubuntu", "Kali"]}
DEFAULT_VARIANT = {"vm1": "CentOS", "vm2": "Win10", "vm3": "Ubuntu"}
WORKER_RESTRS = {
    "net3": {"vm1": "only CentOS, Fedora\n", "vm2": "no WinXP, Win8\n"},
    "net5": {"vm1": "only Fedora\n", "vm2": "no Win7\n"},
    "cluster1.net7": {"vm1": "only CentOS, Fedora\n", "vm2": "no WinXP, Win8\n"},
    "cluster2.net9": {"vm1": "only CentOS\n", "vm2": "no Win10\n"},
}
NETS = ["net1", "net1 net2", "net0", "net1 net5", "net3 net4 net5", "cluster1.net6 cluster1.net7",
        "net1 cluster2.net9", "net2", "net5 net1", "net1 net5 net2", "cluster2.net9 net1 net3"]


@st.composite
def cases(draw):
    chain = draw(st.lists(st.sampled_from(STEPS), min_size=1, max_size=4))
    vms = draw(st.sampled_from([["vm1"], ["vm2"], ["vm1", "vm2"], ["vm1", "vm2", "vm3"], ["vm3"], ["vm2", "vm3"], None]))
    restrs = {}
    for vm in (vms or ["vm1", "vm2", "vm3"]):
        choice = draw(st.sampled_from(["default", "default", "other", "all"]))
        if choice == "other":
            restrs[vm] = VARIANTS[vm][1]
        elif choice == "all":
            restrs[vm] = ""
    nets = draw(st.sampled_from(NETS))
    mode = draw(st.sampled_from(["none", "none", "fail", "fail", "raise"]))
    position = draw(st.integers(0, len(chain) - 1))
    if mode == "raise" and chain[position] != "noop":
        nets = draw(st.sampled_from(["net1", "net0", "net2"]))     # a raising step only with a single worker
    case = {"chain": chain, "vms": vms, "restrs": restrs, "nets": nets}
    if mode == "fail" and chain[position] != "noop":
        case["fail"] = {"step": position, "status": draw(st.sampled_from(["FAIL", "ERROR"]))}
    elif mode == "raise" and len(nets.split()) == 1 and chain[position] != "noop":
        case["raise"] = position
        case["raise_type"] = draw(st.sampled_from(sorted(toolsim.ToolSim.RAISABLE)))
    if draw(st.booleans()):
        case["extra"] = draw(st.sampled_from([{"get_state_images": "customize"}, {"set_state_vms": "mystate"},
                                              {"unset_state_images": "customize"}, {"files": "a.txt"},
                                              {"unset_mode": "ri"}, {"unset_mode": "fa"}, {"get_mode": "ia"},
                                              {"set_mode": "fa"}]))
    return case


def selected(case):
    """{vm: [variants]} as the command line selects them (own reading of the documentation)."""
    vms = case["vms"] or ["vm1", "vm2", "vm3"]
    out = {}
    for vm in vms:
        if vm in case["restrs"]:
            out[vm] = [case["restrs"][vm]] if case["restrs"][vm] else list(VARIANTS[vm])
        else:
            out[vm] = [DEFAULT_VARIANT[vm]]
    return out


def worker_allows(worker, vm, variant):
    restr = WORKER_RESTRS.get(worker, {}).get(vm, "")
    return e1.restriction_allows(restr, variant) if restr else True


def run_case(case, scratch):
    mods = simmod.setup()
    from avocado_i2n.plugins.manu import Manu
    from avocado_i2n import cmd_parser

    params = ["setup=" + ",".join(case["chain"]), "nets=" + case["nets"].replace(" ", ",")]
    if case["vms"]:
        params.append("vms=" + ",".join(case["vms"]))
    for vm, restr in case["restrs"].items():
        params.append(f"only_{vm}={restr}")
    for key, value in (case.get("extra") or {}).items():
        params.append(f"{key}={value}")
    fail = {}
    if "fail" in case:
        fail[f"0m{case['fail']['step']}"] = case["fail"]["status"]
    raise_for = f"0m{case['raise']}" if "raise" in case else None
    tool_sim = toolsim.ToolSim(durations=["0.01T", "0.05T"], outcomes=["PASS"], scratch=scratch, fail=fail,
                               raise_for=raise_for, raise_type=case.get("raise_type", "RuntimeError"))
    config = {"i2n.manu.params": params}
    with toolsim.session(tool_sim):
        try:
            tool_sim.retcode = Manu().run(config)
        except Exception as error:
            tool_sim.error = error
            tool_sim.retcode = None
    return tool_sim


def judge(sim, case):
    if sim.error is not None:
        yield Violation({"oracle": "chain-raises", "error": type(sim.error).__name__}, repr(sim.error), case)
        return
    chosen = selected(case)
    workers = case["nets"].split()
    starts = sim.starts()
    by_step = {}
    for start in starts:
        match = re.match(r"0m(\d)", start["uid"])
        if not match:
            yield Violation({"oracle": "execution-without-step-tag"}, f"{start['name']} uid {start['uid']}", case)
            continue
        by_step.setdefault(int(match.group(1)), []).append(start)
    # order: all executions of step i before any of step i+1 (a raising step may leave nothing behind)
    last_index = -1
    for start in starts:
        match = re.match(r"0m(\d)", start["uid"])
        if match:
            index = int(match.group(1))
            if index < last_index:
                yield Violation({"oracle": "steps-out-of-order"},
                                f"a test of step {index} ({case['chain'][index]}) started after one of step {last_index}", case)
            last_index = max(last_index, index)
    raised_step = case.get("raise")
    for index, step in enumerate(case["chain"]):
        executions = by_step.get(index, [])
        if step == "noop":
            if executions:
                yield Violation({"oracle": "noop-executes"}, f"noop executed {len(executions)} tests", case)
            continue
        if raised_step == index:
            continue
        expected = []
        if step in PER_VM:
            for vm, variants in sorted(chosen.items()):
                for variant in variants:
                    for worker in workers:
                        if worker_allows(worker, vm, variant):
                            expected.append((worker, vm, variant))
        else:
            if any(len(v) > 1 for v in chosen.values()):
                # multi-vm tools refuse several variants of one vm (documented RuntimeError)
                continue
            for worker in workers:
                if all(worker_allows(worker, vm, variants[0]) for vm, variants in chosen.items()):
                    expected.append((worker, " ".join(sorted(chosen)), ""))
        got = []
        for start in executions:
            params = start["params"]
            vms = params.get("vms", "")
            if step in PER_VM:
                variant = next((v for v in VARIANTS.get(vms, []) if re.search(rf"\.{v}\.", params["name"])), "?")
                got.append((start["worker"], vms, variant))
            else:
                got.append((start["worker"], " ".join(sorted(vms.split())), ""))
            # the step's parameters are applied
            action = PER_VM.get(step) or MULTI_VM.get(step)
            if params.get("vm_action") != action:
                yield Violation({"oracle": "step-parameter-not-applied", "key": "vm_action"},
                                f"step {step}: executed {params['name'][:80]} with vm_action={params.get('vm_action')!r}", case)
            if step in PER_VM and params.get("skip_image_processing") != "yes":
                yield Violation({"oracle": "step-parameter-not-applied", "key": "skip_image_processing"},
                                f"step {step}: skip_image_processing={params.get('skip_image_processing')!r}", case)
            for key, value in REUSE.get(step, {}).items():
                if params.get(key) != value:
                    yield Violation({"oracle": "step-parameter-not-applied", "key": key},
                                    f"step {step}: {key}={params.get(key)!r} instead of {value!r}", case)
            for key, value in (case.get("extra") or {}).items():
                if key in REUSE.get(step, {}):
                    continue
                if params.get(key) != value:
                    yield Violation({"oracle": "user-parameter-lost", "key": key},
                                    f"step {step} (position {index}): {key}={params.get(key)!r}, the command line says {value!r}", case)
                # a general policy given by the user is not overridden by a vm-specific default of the tool
                for vm in vms.split():
                    effective = params.get(f"{key}_{vm}", params.get(key))
                    if key.endswith("_mode") and effective != value:
                        yield Violation({"oracle": "user-parameter-overridden", "key": key},
                                        f"step {step} (position {index}): the command line says {key}={value} but for {vm} "
                                        f"{key}_{vm}={effective!r} takes precedence", case)
        if sorted(got) != sorted(expected):
            extra = sorted(set(got) - set(expected))
            missing = sorted(set(expected) - set(got))
            twice = sorted({g for g in got if got.count(g) > 1})
            kind = "twice" if twice and not extra and not missing else "unselected-or-incompatible" if extra else "missing"
            yield Violation({"oracle": "executions-differ", "kind": kind, "tool": "per-vm" if step in PER_VM else "multi-vm"},
                            f"step {index} ({step}): executed {sorted(got)}, expected {sorted(expected)}", case)
    # return code
    failed = "fail" in case and bool(by_step.get(case["fail"]["step"]))
    multi_refused = any(step in MULTI_VM and any(len(v) > 1 for v in chosen.values()) for step in case["chain"])
    expected_code = 1 if (failed or raised_step is not None and sim.raised or multi_refused) else 0
    if sim.retcode != expected_code:
        yield Violation({"oracle": "return-code", "expected": expected_code},
                        f"chain {case['chain']} returned {sim.retcode}, expected {expected_code} (failed step: {case.get('fail')}, "
                        f"raised: {raised_step})", case)


def body_factory(ctx):
    def body(case):
        sim = run_case(case, ctx.scratch)
        labels = [f"steps={len(case['chain'])}", f"workers={len(case['nets'].split())}"]
        labels += ["fail"] if "fail" in case else ["raise"] if "raise" in case else []
        nontrivial = len(case["chain"]) >= 2 or len(case["nets"].split()) >= 2 or "fail" in case or "raise" in case
        ctx.case(case, nontrivial, labels, sample={"case": case, "log": sim.brief_log(10), "retcode": sim.retcode})
        found = {}
        for violation in judge(sim, case):
            found.setdefault(violation.key, violation)
        unknown = [v for k, v in found.items() if k not in ctx.known]
        if unknown:
            raise unknown[0]
        if found:
            raise next(iter(found.values()))

    return body


REGRESSIONS = [
    {"chain": ["boot", "check", "shutdown"], "vms": ["vm2", "vm3"], "restrs": {"vm2": "Win7"}, "nets": "net1 net5 net2"},
    {"chain": ["check", "boot"], "vms": ["vm1", "vm2"], "restrs": {}, "nets": "net1 net2"},
    {"chain": ["create", "set"], "vms": ["vm1"], "restrs": {}, "nets": "net1", "extra": {"set_state_images": "mystate"}},
    {"chain": ["get", "unset", "shutdown"], "vms": ["vm2", "vm3"], "restrs": {"vm2": "Win7", "vm3": ""}, "nets": "net1 net5",
     "fail": {"step": 0, "status": "FAIL"}},
    {"chain": ["boot", "check"], "vms": ["vm1"], "restrs": {}, "nets": "net1", "raise": 0},
    # a raising create/clean/collect step must not leave its temporary parameters behind for the later steps
    {"chain": ["collect", "check"], "vms": ["vm1"], "restrs": {}, "nets": "net1", "raise": 0,
     "extra": {"get_state_images": "customize"}},
    {"chain": ["boot", "boot", "check", "boot"], "vms": ["vm1"], "restrs": {}, "nets": "net1 net2"},
    {"chain": ["unset"], "vms": ["vm1"], "restrs": {}, "nets": "net1", "extra": {"unset_mode": "ri"}},
    {"chain": ["boot", "check"], "vms": ["vm1"], "restrs": {}, "nets": "net1", "raise": 0, "raise_type": "TimeoutError"},
]


def run(ctx):
    simmod.setup()
    body = body_factory(ctx)
    for case in REGRESSIONS if ctx.shard == 0 else []:
        try:
            body(case)
        except Violation as violation:
            ctx.record_violation(violation, case)
    ctx.hyp(cases(), body, ctx.budget(320, 8000), name="chains", shrink=(ctx.tier == "thorough"))


def replay(ctx, case):
    simmod.setup()
    sim = run_case(case, ctx.scratch)
    print("\n".join(sim.brief_log(200)))
    print("retcode", sim.retcode, "error", repr(sim.error))
    found = {}
    for violation in judge(sim, case):
        found.setdefault(violation.key, violation)
    return list(found.values())
