"""C13 part V: cache validation by checksum of the backing chain, on real files.

The enumerated parts of c13.py stub `compare_chain` with a drawn validity outcome; here the real
`QCOW2ImageTransfer.compare_chain` + `TransferOps.compare` run over a scratch cache and a scratch pool whose files
are drawn (per image, per state of the backing chain, plus the memory dump of a vm state: same content / different
content / missing on either side).  Only `QemuImg.info` (the backing file of a snapshot) is replaced.

Oracle (the statement's "a local copy is downloaded again only when it differs from the source"): the cache counts
as valid exactly when every file of the state - each image of the object at each state of the backing chain, and for
vm states the memory dump of the requested state - has the same content on both sides.
"""

import json
import os
import shutil

from hypothesis import strategies as st

from vlib.core import Violation

CONTENTS = ["", "A", "B"]          # "" = file missing
CHAINS = [["launch"], ["launch", "base"], ["launch", "mid", "base"]]


@st.composite
def cases(draw):
    kind = draw(st.sampled_from(["images", "nets/vms/images", "vms", "nets/vms", "vms"]))
    images = draw(st.sampled_from([["image1"], ["image1", "image2"], ["image1", "image2", "image3"]]))
    if kind.endswith("images"):
        images = images[:1]
    chain = draw(st.sampled_from(CHAINS))
    files = {}
    names = [f"{image}/{state}.qcow2" for state in chain for image in images]
    if not kind.endswith("images"):
        names.append(f"{chain[0]}.state")
        # decoys the comparison must not depend on: dumps of backing states are not part of the requested state
        names += [f"{state}.state" for state in chain[1:]]
    # mostly equal so that a single differing file decides
    differing = draw(st.lists(st.sampled_from(names), unique=True, max_size=2))
    for name in names:
        content = draw(st.sampled_from(["A", "A", "B"]))
        if name in differing:
            other = draw(st.sampled_from([c for c in CONTENTS if c != content]))
        else:
            other = content
        files[name] = [content, other] if draw(st.booleans()) else [other, content]
    return {"part": "validity", "kind": kind, "images": images, "chain": chain, "files": files,
            "remote_pool": False}


class _FakeQemuImg:
    backing = {}

    def __init__(self, params, root_dir, tag):
        self.state = os.path.basename(params["image_name"])

    def info(self, *args, **kwargs):
        parent = self.backing.get(self.state, "")
        return json.dumps({"backing-filename": f"/x/{parent}.qcow2"} if parent else {})


def check(case, scratch):
    from vlib import env

    env.check_origin()
    env.quiet_logging()
    from avocado_i2n.states import pool
    from virttest.utils_params import Params

    root = os.path.join(scratch, "c13v")
    shutil.rmtree(root, ignore_errors=True)
    cache_dir, pool_root = os.path.join(root, "cache"), os.path.join(root, "pool")
    vm_id = "vm1-abc"
    for name, (cached, pooled) in case["files"].items():
        for base, content in ((cache_dir, cached), (pool_root, pooled)):
            if content:
                path = os.path.join(base, vm_id, name)
                os.makedirs(os.path.dirname(path), exist_ok=True)
                with open(path, "w") as handle:
                    handle.write(content * 64)
    chain, images, kind = case["chain"], case["images"], case["kind"]
    _FakeQemuImg.backing = {state: chain[i + 1] for i, state in enumerate(chain[:-1])}
    params = Params({
        "vms": "vm1", "images": " ".join(images), "object_type": kind, "object_id": vm_id,
        "object_name": "vm1" if not kind.endswith("images") else "vm1/image1", "swarm_pool": cache_dir,
        "image_format": "qcow2", "update_pool_timeout": "5",
    })
    for image in images:
        params[f"image_name_{image}"] = image
    relevant = [f"{image}/{state}.qcow2" for state in chain for image in images]
    if not kind.endswith("images"):
        relevant.append(f"{chain[0]}.state")
    expected = all(case["files"][name][0] == case["files"][name][1] for name in relevant)
    saved = pool.QemuImg
    pool.QemuImg = _FakeQemuImg
    try:
        try:
            got = pool.QCOW2ImageTransfer.compare_chain(chain[0], cache_dir, ":" + pool_root, params)
        except Exception as error:
            raise Violation({"oracle": "validity-compare-raises", "error": type(error).__name__}, repr(error), case)
    finally:
        pool.QemuImg = saved
        shutil.rmtree(root, ignore_errors=True)
    if bool(got) != expected:
        culprits = [name for name in relevant if case["files"][name][0] != case["files"][name][1]]
        what = "memory-dump" if culprits and all(c.endswith(".state") for c in culprits) else (
            "backing-image" if culprits and all(not c.startswith(tuple(f"{i}/{chain[0]}." for i in images)) for c in culprits)
            else "image")
        raise Violation({"oracle": "cache-validity", "got": bool(got), "differs": what if culprits else "nothing"},
                        f"compare_chain({chain[0]}) said the cache is {'valid' if got else 'invalid'} although the files "
                        f"{culprits or 'all'} {'differ' if culprits else 'are equal'} between cache and pool "
                        f"(object type {kind}, images {images}, chain {chain})", case)
    labels = ["V:validity", f"V:chain-{len(chain)}", f"V:images-{len(images)}", "V:vm" if not kind.endswith("images") else "V:image",
              "V:valid" if expected else "V:invalid"]
    differing = [name for name in relevant if case["files"][name][0] != case["files"][name][1]]
    # non-trivial: exactly one file decides, or a decoy differs while the cache is valid
    decoy = any(v[0] != v[1] for n, v in case["files"].items() if n not in relevant)
    if len(differing) == 1:
        labels.append("V:single-" + ("dump" if differing[0].endswith(".state") else
                                     "top-image" if f"/{chain[0]}." in differing[0] else "backing-image"))
    if decoy and expected:
        labels.append("V:valid-with-differing-decoy")
    return len(differing) == 1 or (decoy and expected), labels


def run(ctx):
    def body(case):
        nontrivial, labels = check(case, ctx.scratch)
        ctx.case(case, nontrivial, labels)

    ctx.hyp(cases(), body, ctx.budget(3200, 120000), name="validity")
