"""C07 - graph dependencies are exactly those declared in the configuration (E2, independent resolver)."""

from vlib import ginspect
from props import c06

LEVEL = "exploration"
RULE = c06.RULE.replace("Non-trivial = graph with >=2 workers, a multi-object test or a clone.",
                        "Non-trivial = graph with a multi-object test, a clone or >=2 workers.")
ASSUMPTIONS = c06.ASSUMPTIONS + [
    "the universe of test names is parsed once from sets.cfg with the third-party parser only; declarations (get) are "
    "matched with an own implementation of the documented restriction algebra",
]


def judge(graph, ex, case, ctx):
    yield from ginspect.check_dependencies(graph, ex, case)
    # shared setup is represented once: also part of the structural export
    for violation in ginspect.check_structure(graph, ex, case):
        if violation.sig.get("oracle") in ("test-represented-twice", "several-parents-for-one-state",
                                           "required-state-without-parent", "parent-sets-other-state",
                                           "parent-lacks-object", "parent-object-variant-differs"):
            yield violation


def run(ctx):
    ginspect.run_graph_property(ctx, "C07", judge)
    run_generated_suites(ctx)


# ---------------------------------------------------------------------------
# oracle A: generated suites whose setup DAG is known


def observed_graph(ex, worker):
    nodes, edges, duplicates = set(), set(), []
    entries = {k: v for k, v in ex["nodes"].items() if k != "__duplicates__"}

    def key_of(entry):
        part = entry["setless"].split(".vms.")[0]
        if part.startswith("original.unattended_install"):
            part = "original.unattended_install"
        return (part, tuple(entry["vms"]))

    for entry in entries.values():
        if entry["flat"] or entry["shared_root"] or entry["clones"] or entry["nets"] != worker:
            continue
        key = key_of(entry)
        if key in nodes:
            duplicates.append(key)
        nodes.add(key)
        for parent_name, objects in entry["parents"].items():
            parent = entries.get(parent_name)
            if parent is None or parent["flat"] or parent["shared_root"]:
                continue
            for long_suffix in objects:
                vm = long_suffix.split("_")[-1] if "_" in long_suffix else long_suffix
                edges.add((key, key_of(parent), vm))
    return nodes, edges, duplicates


def check_generated(case, scratch, also=None, compare=True):
    import os
    from vlib import g2, env, sim as simmod, e1
    from vlib.core import Violation
    from avocado.core.settings import settings

    simmod.setup()
    default_suite = settings.as_dict().get("i2n.common.suite_path")
    dest = os.path.join(scratch, "suite-" + str(abs(hash(str(case))) % 10 ** 10))
    g2.write_suite(case["dag"], env.REPO, dest)
    g2.use_suite(dest)
    try:
        scenario = simmod.Scenario("leaves", dict(e1.DEFAULT_VMS), case["nets"], lazy=case["lazy"], suite=dest)
        try:
            if case["lazy"]:
                run = simmod.Sim(scenario, run_params={"test_timeout": 10}, durations=["0.01T"], outcomes=["PASS"], scratch=scratch)
                run.run()
                if run.error is not None:
                    raise run.error
                graph = run.graph
            else:
                graph, swarms = simmod.build_graph(scenario)
        except Exception as error:
            raise Violation({"oracle": "generated-suite-parse-raises", "error": type(error).__name__,
                             "where": ginspect._where(error)}, f"{error!r}"[:1500], case)
        ex = ginspect.export(graph)
        if also is not None:
            for violation in also(graph, ex, case):
                raise violation
        expected_nodes, expected_edges = g2.expected_graph(case["dag"])
        if not compare:
            return any(g[0] == "group" and g[2] is None for grp in case["dag"]["groups"] for g in grp["gets"].values()), len(expected_nodes)
        clones = False
        for worker in case["nets"].split():
            nodes, edges, duplicates = observed_graph(ex, worker)
            if case["lazy"]:
                # a worker only expands what it reached; the union over workers is compared below
                continue
            if duplicates:
                raise Violation({"oracle": "generated-suite", "kind": "duplicated-node"}, f"{worker}: {duplicates}", case)
            if nodes != expected_nodes:
                kind = "missing-node" if expected_nodes - nodes else "spurious-node"
                raise Violation({"oracle": "generated-suite", "kind": kind},
                                f"{worker}: missing {sorted(expected_nodes - nodes)}, spurious {sorted(nodes - expected_nodes)}", case)
            if edges != expected_edges:
                kind = "missing-edge" if expected_edges - edges else "spurious-edge"
                raise Violation({"oracle": "generated-suite", "kind": kind},
                                f"{worker}: missing {sorted(expected_edges - edges)[:4]}, spurious {sorted(edges - expected_edges)[:4]}", case)
        if case["lazy"]:
            union_nodes, union_edges = set(), set()
            for worker in case["nets"].split():
                nodes, edges, duplicates = observed_graph(ex, worker)
                if duplicates:
                    raise Violation({"oracle": "generated-suite", "kind": "duplicated-node"}, f"{worker}: {duplicates}", case)
                if nodes - expected_nodes or edges - expected_edges:
                    raise Violation({"oracle": "generated-suite", "kind": "spurious-node" if nodes - expected_nodes else "spurious-edge"},
                                    f"{worker}: spurious {sorted(nodes - expected_nodes)} {sorted(edges - expected_edges)[:4]}", case)
                union_nodes |= nodes
                union_edges |= edges
            if union_nodes != expected_nodes or union_edges != expected_edges:
                raise Violation({"oracle": "generated-suite", "kind": "missing-node" if expected_nodes - union_nodes else "missing-edge"},
                                f"no worker expanded {sorted(expected_nodes - union_nodes)} {sorted(expected_edges - union_edges)[:4]}", case)
        return any(g[0] == "group" and g[2] is None for grp in case["dag"]["groups"] for g in grp["gets"].values()), len(expected_nodes)
    finally:
        settings.update_option("i2n.common.suite_path", default_suite)
        home = os.environ["HOME"]
        for name in os.listdir(home):
            if name.startswith("avocado_overwrite_") and name.endswith(".cfg"):
                os.unlink(os.path.join(home, name))
        simmod._GRAPHS.pop(simmod.Scenario("leaves", dict(e1.DEFAULT_VMS), case["nets"], lazy=case["lazy"], suite=dest).key(), None)
        import shutil
        shutil.rmtree(dest, ignore_errors=True)


def run_generated_suites(ctx, also=None, compare=True, quick=96, thorough=3200):
    from hypothesis import strategies as st
    from vlib import g2

    strategy = st.fixed_dictionaries({
        "part": st.just("generated-suite"), "dag": g2.dags(),
        "nets": st.sampled_from(["net1", "net1", "net1 net2", "net3 net4", "cluster1.net6 cluster2.net6"]),
        "lazy": st.sampled_from([False, False, True]),
    })

    def body(case):
        cloning, size = check_generated(case, ctx.scratch, also=also, compare=compare)
        multi = any(len(g["vms"]) > 1 for g in case["dag"]["groups"])
        chained = any(x[0] == "group" for g in case["dag"]["groups"] for x in g["gets"].values())
        labels = ["A:generated-suite", f"A:nodes<={(size // 5 + 1) * 5}"] + (["A:cloning"] if cloning else []) \
            + (["A:multi-vm"] if multi else []) + (["A:group-on-group"] if chained else []) + (["A:lazy"] if case["lazy"] else [])
        ctx.case(case, cloning or multi or chained, labels)

    ctx.hyp(strategy, body, ctx.budget(quick, thorough), name="generated-suites", shrink=(ctx.tier == "thorough"))


def replay(ctx, case):
    if isinstance(case, dict) and case.get("part") == "generated-suite":
        from vlib.core import Violation

        try:
            check_generated(case, ctx.scratch)
        except Violation as violation:
            return [violation]
        return []
    ginspect.simmod.setup()
    graph, error = ginspect.obtain_graph(case, ctx.scratch)
    ex = ginspect.export(graph)
    found = {}
    for violation in judge(graph, ex, case, ctx):
        found.setdefault(violation.key, violation)
    return list(found.values())
