"""C07 - graph dependencies are exactly those declared in the configuration (E2, independent resolver)."""

from vlib import ginspect
from props import c06

LEVEL = "exploration"
RULE = c06.RULE.replace("Non-trivial = graph with >=2 workers, a multi-object test or a clone.",
                        "Non-trivial = graph with a multi-object test, a clone or >=2 workers.")
ASSUMPTIONS = c06.ASSUMPTIONS + [
    "the universe of test names is parsed once from sets.cfg with the third-party parser only; declarations (get) are "
    "matched with an own implementation of the documented restriction algebra",
]


def judge(graph, ex, case, ctx):
    yield from ginspect.check_dependencies(graph, ex, case)
    # shared setup is represented once: also part of the structural export
    for violation in ginspect.check_structure(graph, ex, case):
        if violation.sig.get("oracle") in ("test-represented-twice", "several-parents-for-one-state",
                                           "required-state-without-parent", "parent-sets-other-state",
                                           "parent-lacks-object", "parent-object-variant-differs"):
            yield violation


def run(ctx):
    ginspect.run_graph_property(ctx, "C07", judge)


def replay(ctx, case):
    ginspect.simmod.setup()
    graph, error = ginspect.obtain_graph(case, ctx.scratch)
    ex = ginspect.export(graph)
    found = {}
    for violation in judge(graph, ex, case, ctx):
        found.setdefault(violation.key, violation)
    return list(found.values())
