"""C13 - pool access respects the enabled scopes and prefers the closest source
(DESIGN.md section 4, C13).

Part S (state operations): the real ``SourcedStateBackend`` is driven through a
subclass that supplies the local backend (``_show/_get/_set/_unset``) and the
``transport`` as recording stubs - the same seams ``StatesPoolTest`` patches and
the same shape the shipped backends (qcow2ext, ramfile...) use. Every source of a
case is *constructed from a label* (own / shared / swarm / cluster) as a location
string ``wid:path`` plus the ``nets_gateway_<wid>`` / ``nets_host_<wid>``
parameters a worker would contribute, so the scope the oracle expects for a
source is the generator's, never the result of ``get_source_scope``.

Part R (root operations): the real ``RootSourcedStateBackend`` driven the same
way (``_check_root/_get_root/_set_root/_unset_root`` and ``transport``).
"""

import itertools

from hypothesis import strategies as st

from vlib.core import Violation

LEVEL = "exploration"
EXHAUSTIVE = False
RULE = (
    "S: case = (operation in show/get/set/unset, pool_scope subset (and word order), own worker kind, ordered list of "
    "labelled sources (label own/shared/swarm/cluster + one of 6 renderings per label), which sources hold the state, "
    "local copy present, cache valid). Lists of <=4 sources are enumerated completely over all label sequences, all 16 "
    "scope subsets, all placements and cache outcomes; longer lists (<=6), scope word orders, repeated locations and free "
    "renderings come from hypothesis. Non-trivial when the list holds at least one permitted and one not permitted source, "
    "or (get) two permitted sources of different proximity, or (set) the update has to be refused. "
    "R: case = (root operation, pool_scope string, object type, local root, pool root, per image compare outcomes), fully "
    "enumerated; non-trivial when the scope has >=2 words or the update has to be refused. Distinct = canonical JSON of the case."
)
ASSUMPTIONS = [
    "the local backend (_show/_get/_set/_unset/_check_root/...) and the transport are recording stubs supplied through "
    "class attributes of a subclass, as the shipped backends and the selftests do; transfers themselves are C14's subject",
    "a source's scope is defined by its construction: own = same gateway+host and the own swarm_pool path; shared = same "
    "gateway+host and any other path (shared_pool included); swarm = same gateway, other host; cluster = other gateway",
    "location strings have the shapes callers produce: ':<path>' and '<worker id>:<path>' with the worker's nets_* "
    "parameters suffixed by its id (TestNode.pull_locations); swarm_pool and shared_pool differ",
    "set_root/unset_root with a pool_scope other than exactly 'own' or 'shared' may be refused with RuntimeError provided "
    "nothing was contacted or changed",
]

SCOPES = ["own", "swarm", "cluster", "shared"]  # order of the shipped configuration
LABELS = ["own", "shared", "swarm", "cluster"]
RANK = {"own": 3, "shared": 2, "swarm": 1, "cluster": 0}
OPS = ["show", "get", "set", "unset"]
ROOT_OPS = ["check_root", "get_root", "set_root", "unset_root"]
STATE = "launch"
SWARM = "/mnt/local/images/swarm"
SHARED = "/mnt/local/images/shared"
NVARIANTS = 6

# own worker kinds: (gateway, host) as TestWorker.overwrite_with_slot produces them
# (serial process, local container, remote host), each with four same-gateway workers
# on other hosts and four workers behind other gateways
ENVS = [
    {"own": ("", ""), "swarm": [("", "c2"), ("", "c3"), ("", "c4"), ("", "c5")],
     "cluster": [("gw2.example", "1"), ("gw2.example", "2"), ("gw3.example", "1"), ("gw3.example", "2")]},
    {"own": ("", "c1"), "swarm": [("", "c2"), ("", "c3"), ("", "c4"), ("", "")],
     "cluster": [("gw2.example", "1"), ("gw2.example", "2"), ("gw3.example", "1"), ("gw3.example", "2")]},
    # second and fourth cluster worker carry the same host number as the own worker behind another gateway
    {"own": ("gw1.example", "1"), "swarm": [("gw1.example", "2"), ("gw1.example", "3"), ("gw1.example", "4"), ("gw1.example", "5")],
     "cluster": [("gw2.example", "2"), ("gw2.example", "1"), ("", "c1"), ("gw3.example", "1")]},
]
SELF_WID = "net1"
ALIAS_WIDS = ["net1b", "net1c", "net1d", "net1e"]  # further ids resolving to the own gateway and host
SWARM_WIDS = ["net2", "net3", "net4", "net5"]
CLUSTER_WIDS = ["cluster2.net6", "cluster2.net7", "cluster3.net6", "cluster3.net7"]

# label -> six renderings (worker id, path); "" = no worker id (the ':/path' form)
VARIANTS = {
    "own": [("", SWARM), (SELF_WID, SWARM), (ALIAS_WIDS[0], SWARM), (ALIAS_WIDS[1], SWARM), (ALIAS_WIDS[2], SWARM),
            (ALIAS_WIDS[3], SWARM)],
    "shared": [("", SHARED), ("", "/path/1"), (SELF_WID, "/path/2"), (SELF_WID, SHARED), (ALIAS_WIDS[0], "/path/3"),
               ("", "/path/4")],
    "swarm": [(SWARM_WIDS[0], SWARM), (SWARM_WIDS[1], SWARM), (SWARM_WIDS[0], "/path/5"), (SWARM_WIDS[2], SHARED),
              (SWARM_WIDS[1], "/path/6"), (SWARM_WIDS[3], SWARM)],
    "cluster": [(CLUSTER_WIDS[0], SWARM), (CLUSTER_WIDS[1], SWARM), (CLUSTER_WIDS[0], "/path/7"), (CLUSTER_WIDS[2], SHARED),
                (CLUSTER_WIDS[1], "/path/8"), (CLUSTER_WIDS[3], SWARM)],
}


def load():
    from vlib import env

    env.check_origin()
    env.quiet_logging()
    from avocado_i2n.states import pool
    from virttest.utils_params import Params

    class World:
        """What exists where for one case and what was asked of whom."""

        def __init__(self):
            self.calls = []        # (side, method, location or None)
            self.pool = {}         # location -> set of state names
            self.local = set()
            self.valid = False
            self.local_root = False
            self.pool_root = False
            self.compare = []      # per image outcome of ops.compare for the root part

    class Transport:
        world = None

        @classmethod
        def show(cls, params, object=None):
            location = params.get("show_location")
            cls.world.calls.append(("transport", "show", location))
            return sorted(cls.world.pool.get(location, ()))

        @classmethod
        def get(cls, params, object=None):
            cls.world.calls.append(("transport", "get", params.get("get_location")))

        @classmethod
        def set(cls, params, object=None):
            cls.world.calls.append(("transport", "set", params.get("set_location")))

        @classmethod
        def unset(cls, params, object=None):
            cls.world.calls.append(("transport", "unset", params.get("unset_location")))

        @classmethod
        def compare_chain(cls, state, cache_dir, pool_dir, params):
            cls.world.calls.append(("transport", "compare_chain", pool_dir))
            return cls.world.valid

        # root side
        @classmethod
        def check_root(cls, params, object=None):
            cls.world.calls.append(("transport", "check_root", None))
            return cls.world.pool_root

        @classmethod
        def get_root(cls, params, object=None):
            cls.world.calls.append(("transport", "get_root", None))

        @classmethod
        def set_root(cls, params, object=None):
            cls.world.calls.append(("transport", "set_root", None))

        @classmethod
        def unset_root(cls, params, object=None):
            cls.world.calls.append(("transport", "unset_root", None))

        class ops:
            world = None

            @classmethod
            def compare(cls, cache_path, pool_path, params):
                index = sum(1 for c in cls.world.calls if c[1] == "ops.compare")
                cls.world.calls.append(("transport", "ops.compare", pool_path))
                outcomes = cls.world.compare
                return outcomes[index] if index < len(outcomes) else True

    class StateBackend(pool.SourcedStateBackend):
        transport = Transport

        @classmethod
        def _show(cls, params, object=None):
            Transport.world.calls.append(("local", "_show", None))
            return sorted(Transport.world.local)

        @classmethod
        def _get(cls, params, object=None):
            Transport.world.calls.append(("local", "_get", None))

        @classmethod
        def _set(cls, params, object=None):
            Transport.world.calls.append(("local", "_set", None))

        @classmethod
        def _unset(cls, params, object=None):
            Transport.world.calls.append(("local", "_unset", None))

    class RootBackend(pool.RootSourcedStateBackend):
        transport = Transport

        @classmethod
        def _check_root(cls, params, object=None):
            Transport.world.calls.append(("local", "_check_root", None))
            return Transport.world.local_root

        @classmethod
        def _get_root(cls, params, object=None):
            Transport.world.calls.append(("local", "_get_root", None))

        @classmethod
        def _set_root(cls, params, object=None):
            Transport.world.calls.append(("local", "_set_root", None))

        @classmethod
        def _unset_root(cls, params, object=None):
            Transport.world.calls.append(("local", "_unset_root", None))

    def new_world():
        world = World()
        Transport.world = world
        Transport.ops.world = world
        pool.TransferOps._session_cache.clear()
        return world

    return {"pool": pool, "Params": Params, "StateBackend": StateBackend, "RootBackend": RootBackend, "new_world": new_world}


# ---------------------------------------------------------------------------
# part S: construction of a case from labels


def render(env_index, sources):
    """[(label, variant)] -> ([location...], {location: label}, extra params).

    Locations that repeat keep their first position in the label map; the
    location string itself is repeated in the parameter as generated.
    """
    env = ENVS[env_index]
    gateway, host = env["own"]
    extra = {}

    def worker(wid, gw, hst):
        extra[f"nets_gateway_{wid}"] = gw
        extra[f"nets_host_{wid}"] = hst
        extra[f"nets_spawner_{wid}"] = "remote" if gw else ("lxc" if hst else "process")
        extra[f"nets_shell_host_{wid}"] = gw or "localhost"

    locations, labels = [], {}
    for label, variant in sources:
        wid, path = VARIANTS[label][variant]
        if wid == SELF_WID or wid in ALIAS_WIDS:
            worker(wid, gateway, host)
        elif wid in SWARM_WIDS:
            worker(wid, *env["swarm"][SWARM_WIDS.index(wid)])
        elif wid in CLUSTER_WIDS:
            worker(wid, *env["cluster"][CLUSTER_WIDS.index(wid)])
        location = f"{wid}:{path}"
        locations.append(location)
        labels.setdefault(location, label)
    return locations, labels, extra


def state_params(impl, case, locations, extra):
    op = case["op"]
    gateway, host = ENVS[case["env"]]["own"]
    params = impl["Params"]({
        "nets": SELF_WID, "vms": "vm1", "images": "image1", "object_id": "vm1-abc.def",
        "object_name": "net1/vm1/image1", "object_type": "nets/vms/images", "states": "mock",
        "image_name": "image1", "image_format": "qcow2", "vms_base_dir": SWARM,
        "swarm_pool": SWARM, "shared_pool": SHARED,
        "nets_gateway": gateway, "nets_host": host,
        "nets_spawner": "remote" if gateway else ("lxc" if host else "process"),
        "nets_shell_host": gateway or "localhost",
        "pool_scope": case["scope"],
        f"{op}_location": " ".join(locations),
    })
    params.update(extra)
    if op == "show":
        params["check_state"] = STATE
    else:
        params[f"{op}_state"] = STATE
        # get/set/unset arrive after the state check chain which copies the location for listing
        params["show_location"] = params[f"{op}_location"]
    return params


def check_state_case(case, impl):
    """Run one state operation and judge it. Returns (nontrivial, labels)."""
    op = case["op"]
    scopes = case["scope"].split()
    own_enabled = "own" in scopes
    locations, label_of, extra = render(case["env"], case["sources"])
    distinct = list(label_of)  # first occurrences, in order
    permitted = [loc for loc in distinct if label_of[loc] != "own" and label_of[loc] in scopes]
    others = [loc for loc in distinct if loc not in permitted]

    world = impl["new_world"]()
    have = {}
    for index, location in enumerate(locations):
        have.setdefault(location, bool(case["have"][index]))
    for index, location in enumerate(distinct):
        world.pool[location] = {f"m{index}"} | ({STATE} if have[location] else set())
    world.local = {"loc"} | ({STATE} if case["local"] else set())
    world.valid = bool(case["valid"])
    params = state_params(impl, case, locations, extra)
    backend = impl["StateBackend"]

    refusal_expected = op == "set" and not own_enabled and not case["local"]
    result, error = None, None
    try:
        result = getattr(backend, op)(params, None)
    except RuntimeError as caught:
        error = caught
        if not refusal_expected:
            raise Violation({"oracle": "refusal", "op": op, "kind": "refused-without-reason"},
                            f"{op} raised {caught!r} with scopes {scopes}, local copy {case['local']}", case)
    except Exception as caught:
        raise Violation({"oracle": "unexpected-exception", "op": op, "error": type(caught).__name__},
                        f"{op} raised {caught!r}", case)

    calls = list(world.calls)
    transport_calls = [c for c in calls if c[0] == "transport"]
    local_calls = [c[1] for c in calls if c[0] == "local"]
    contacted = []
    for _, method, location in transport_calls:
        if location not in contacted:
            contacted.append(location)
    trace = f"scopes={scopes} sources={[(loc, label_of[loc]) for loc in distinct]} calls={calls}"

    # --- refusal of a pool update without the local state
    if refusal_expected:
        if error is None:
            raise Violation({"oracle": "refusal", "op": op, "kind": "not-refused"},
                            f"set without 'own' and without a local state was not refused; {trace}", case)
        if transport_calls or [c for c in local_calls if c != "_show"]:
            raise Violation({"oracle": "refusal", "op": op, "kind": "contacted-although-refused"}, trace, case)
        return True, ["refusal"]

    # --- only permitted sources are contacted
    for location in contacted:
        if location not in label_of:
            raise Violation({"oracle": "scope-filter", "op": op, "kind": "unknown-location"},
                            f"transport asked about {location!r}; {trace}", case)
        if location not in permitted:
            label = label_of[location]
            reason = "own-source" if label == "own" else "scope-disabled"
            raise Violation({"oracle": "scope-filter", "op": op, "kind": reason, "label": label},
                            f"transport contacted {location} ({label}); {trace}", case)
    for _, method, location in transport_calls:
        expected_methods = {"show": ["show"], "get": ["show", "compare_chain", "get"], "set": ["set"], "unset": ["unset"]}[op]
        if method not in expected_methods:
            raise Violation({"oracle": "wrong-transport-operation", "op": op, "method": method}, trace, case)

    # --- the local backend stands for the own scope
    mutator = {"get": "_get", "set": "_set", "unset": "_unset"}.get(op)
    if mutator:
        count = local_calls.count(mutator)
        if count and not own_enabled:
            raise Violation({"oracle": "local-backend", "op": op, "kind": "used-with-own-disabled"}, trace, case)
        if own_enabled and count != 1:
            raise Violation({"oracle": "local-backend", "op": op, "kind": "not-used-once-with-own-enabled"}, trace, case)
    for name in local_calls:
        if name not in ("_show", mutator):
            raise Violation({"oracle": "local-backend", "op": op, "kind": "foreign-local-operation", "method": name}, trace, case)

    labels = []
    if op == "show":
        allowed = set(world.local) if own_enabled else set()
        for location in permitted:
            allowed |= world.pool[location]
        spurious = sorted(set(result) - allowed)
        if spurious:
            everything = set(world.local).union(*world.pool.values())
            if set(spurious) - everything:
                origin = "from-nowhere"
            elif "loc" in spurious:
                origin = "local-with-own-disabled"
            elif spurious != [STATE]:
                origin = "source-not-permitted"
            else:
                origin = "state-from-not-permitted-place"
            raise Violation({"oracle": "show-within-permitted", "kind": origin},
                            f"show reported {sorted(result)}, permitted content is {sorted(allowed)}; {trace}", case)
        labels.append("show:state-visible" if STATE in result else "show:state-hidden")
    elif op == "get":
        if not permitted:
            if contacted:
                raise Violation({"oracle": "closest-source", "kind": "contacted-without-permitted"}, trace, case)
            labels.append("get:no-permitted-source")
        else:
            if not contacted:
                raise Violation({"oracle": "closest-source", "kind": "none-contacted"},
                                f"no permitted source was consulted; {trace}", case)
            if len(contacted) > 1:
                raise Violation({"oracle": "closest-source", "kind": "more-than-one"},
                                f"{len(contacted)} sources contacted for one get; {trace}", case)
            chosen = contacted[0]
            best = max(RANK[label_of[loc]] for loc in permitted)
            if RANK[label_of[chosen]] != best:
                raise Violation({"oracle": "closest-source", "kind": "farther-than-best",
                                 "chosen": label_of[chosen], "best": [l for l in LABELS if RANK[l] == best][0]},
                                f"get used {chosen}; {trace}", case)
            downloads = [c for c in transport_calls if c[1] == "get"]
            needed = have[chosen] and (not case["local"] or not case["valid"])
            if len(downloads) > 1:
                raise Violation({"oracle": "download-rule", "kind": "repeated"}, trace, case)
            if downloads and not needed:
                kind = "absent-in-source" if not have[chosen] else "redundant-valid-cache"
                raise Violation({"oracle": "download-rule", "kind": kind},
                                f"downloaded although source has state={have[chosen]}, local={case['local']}, "
                                f"valid={case['valid']}; {trace}", case)
            if needed and not downloads:
                kind = "missing-no-local-copy" if not case["local"] else "missing-invalid-cache"
                raise Violation({"oracle": "download-rule", "kind": kind}, trace, case)
            labels.append("get:download" if downloads else
                          ("get:valid-cache-kept" if have[chosen] else "get:source-lacks-state"))
            labels.append(f"get:chosen={label_of[chosen]}")
    else:
        reached = [c[2] for c in transport_calls if c[1] == op]
        missed = [loc for loc in permitted if loc not in reached]
        if missed:
            raise Violation({"oracle": "all-mirrors", "op": op, "kind": "mirror-missed", "label": label_of[missed[0]]},
                            f"{op} did not reach {missed}; {trace}", case)
        labels.append(f"{op}:mirrors={min(len(permitted), 3)}{'+' if len(permitted) > 3 else ''}")

    permitted_ranks = {RANK[label_of[loc]] for loc in permitted}
    nontrivial = bool(permitted and others) or (op == "get" and len(permitted_ranks) >= 2)
    return nontrivial, labels


# ---------------------------------------------------------------------------
# part R: root operations


def check_root_case(case, impl, found):
    """Run one root operation and judge it; a hit of the root scope filter is appended to ``found``
    (instead of being raised) so that the remaining oracles are still evaluated on the same case."""
    op = case["op"]
    scope = case["scope"]
    scopes = scope.split()
    own_enabled = "own" in scopes
    world = impl["new_world"]()
    world.local_root = bool(case["local"])
    world.pool_root = bool(case["pool"])
    world.compare = [bool(x) for x in case["compare"]]
    images = [f"image{i + 1}" for i in range(len(case["compare"]))]
    gateway, host = ENVS[case["env"]]["own"]
    params = impl["Params"]({
        "nets": SELF_WID, "vms": "vm1", "images": " ".join(images), "object_id": "vm1-abc.def",
        "object_type": case["type"], "states": "mock", "image_format": "qcow2", "vms_base_dir": "/images",
        "swarm_pool": SWARM, "shared_pool": SHARED, "nets_gateway": gateway, "nets_host": host,
        "pool_scope": scope,
    })
    for image in images:
        params[f"image_name_{image}"] = image
    params["image_name"] = images[0]
    backend = impl["RootBackend"]

    update_refusal = op == "set_root" and scopes == ["shared"] and not case["local"]
    invalid_scope = op in ("set_root", "unset_root") and scope not in ("own", "shared")
    result, error, pending = None, None, None
    try:
        result = getattr(backend, op)(params, None)
    except RuntimeError as caught:
        error = caught
        if not (update_refusal or invalid_scope):
            pending = Violation({"oracle": "root-refusal", "op": op, "kind": "refused-without-reason"},
                                f"{op} raised {caught!r} with pool_scope {scope!r}, local root {case['local']}", case)
    except Exception as caught:
        pending = Violation({"oracle": "unexpected-exception", "op": op, "error": type(caught).__name__},
                            f"{op} raised {caught!r} with pool_scope {scope!r}", case)

    calls = list(world.calls)
    transport_calls = [c[1] for c in calls if c[0] == "transport"]
    local_mutations = [c[1] for c in calls if c[0] == "local" and c[1] != "_check_root"]
    trace = f"pool_scope={scope!r} local_root={case['local']} pool_root={case['pool']} compare={case['compare']} calls={calls}"
    labels = []

    # the transport of the root backend is the shared pool: it may be contacted only when 'shared' is enabled
    if transport_calls and "shared" not in scopes:
        found.append(Violation({"oracle": "root-scope-filter", "kind": "shared-disabled", "op": op},
                               f"the shared pool was contacted although 'shared' is not in pool_scope; {trace}", case))
        labels.append("root:pool-contacted-with-shared-disabled")
    if pending is not None:
        raise pending

    if error is not None:
        if transport_calls or local_mutations:
            raise Violation({"oracle": "root-refusal", "op": op, "kind": "contacted-although-refused"}, trace, case)
        return len(scopes) >= 2 or update_refusal, ["root:refused-update" if update_refusal else "root:refused-scope"]
    if update_refusal:
        raise Violation({"oracle": "root-refusal", "op": op, "kind": "not-refused"},
                        f"pool root update without a local root was not refused; {trace}", case)

    if scope == "own" and transport_calls:
        raise Violation({"oracle": "root-scope", "op": op, "kind": "transport-with-own-only"}, trace, case)
    if not own_enabled and local_mutations:
        raise Violation({"oracle": "root-scope", "op": op, "kind": "local-with-own-disabled"}, trace, case)
    if op == "check_root":
        if result and not (case["local"] or (case["pool"] and scope != "own")):
            raise Violation({"oracle": "root-present-only-if-somewhere", "op": op}, trace, case)
        labels.append("root:present" if result else "root:absent")
    elif op == "get_root":
        downloads = transport_calls.count("get_root")
        if own_enabled and scope != "own":
            needed = case["pool"] and (not case["local"] or not all(world.compare))
            if downloads and not needed:
                kind = "absent-in-pool" if not case["pool"] else "redundant-valid-cache"
                raise Violation({"oracle": "root-download-rule", "kind": kind}, trace, case)
            if needed and not downloads:
                kind = "missing-no-local-copy" if not case["local"] else "missing-invalid-cache"
                raise Violation({"oracle": "root-download-rule", "kind": kind}, trace, case)
            if downloads > 1:
                raise Violation({"oracle": "root-download-rule", "kind": "repeated"}, trace, case)
            labels.append("root:download" if downloads else "root:no-download")
        if own_enabled and local_mutations != ["_get_root"]:
            raise Violation({"oracle": "root-scope", "op": op, "kind": "local-root-not-used-once"}, trace, case)
    elif op == "set_root":
        if scope == "shared" and transport_calls.count("set_root") != 1:
            raise Violation({"oracle": "root-update", "op": op, "kind": "pool-not-updated"}, trace, case)
        if scope == "own" and local_mutations != ["_set_root"]:
            raise Violation({"oracle": "root-update", "op": op, "kind": "local-not-updated"}, trace, case)
    elif op == "unset_root":
        if scope == "shared" and transport_calls.count("unset_root") != 1:
            raise Violation({"oracle": "root-update", "op": op, "kind": "pool-not-updated"}, trace, case)
        if scope == "own" and local_mutations != ["_unset_root"]:
            raise Violation({"oracle": "root-update", "op": op, "kind": "local-not-updated"}, trace, case)
    return len(scopes) >= 2, labels


def check(case, impl, found):
    """Judge one case: raises the first Violation of the ordinary oracles; violations that must not stop the
    evaluation of the other oracles (root scope filter) are appended to ``found``."""
    if case["part"] == "root":
        nontrivial, labels = check_root_case(case, impl, found)
        return nontrivial, [f"R:{case['op']}"] + labels
    nontrivial, labels = check_state_case(case, impl)
    return nontrivial, [f"S:{case['op']}", f"S:sources={len(case['sources'])}", f"S:env={case['env']}"] + labels


# ---------------------------------------------------------------------------
# enumerated catalogue


def scope_string(mask, order=SCOPES):
    return " ".join(word for bit, word in enumerate(order) if mask >> bit & 1)


def layouts(max_len=4):
    """All (scope subset, label sequence) pairs, lists of 0..max_len sources."""
    sequences = [seq for n in range(max_len + 1) for seq in itertools.product(LABELS, repeat=n)]
    return [(mask, seq_index, seq) for mask in range(16) for seq_index, seq in enumerate(sequences)]


def layout_cases(mask, seq_index, seq):
    """Every operation, placement and cache outcome for one layout."""
    env = (seq_index + mask) % len(ENVS)
    offset = (seq_index // len(ENVS) + mask) % NVARIANTS
    seen, sources = {}, []
    for label in seq:
        sources.append([label, (seen.get(label, 0) + offset) % NVARIANTS])
        seen[label] = seen.get(label, 0) + 1
    scope = scope_string(mask)
    base = {"part": "state", "scope": scope, "env": env, "sources": sources}
    n = len(seq)
    placements = [list(bits) for bits in itertools.product([0, 1], repeat=n)]
    # every source carries its own marker state, so for listing the placement of the state itself adds little
    for have in ([placements[0], placements[-1]] if n else placements):
        for local in (False, True):
            yield dict(base, op="show", have=have, local=local, valid=False)
    for have in placements:
        for local, valid in ((False, False), (True, False), (True, True)):
            yield dict(base, op="get", have=have, local=local, valid=valid)
    for local in (False, True):
        yield dict(base, op="set", have=[0] * n, local=local, valid=False)
    yield dict(base, op="unset", have=[1] * n, local=True, valid=False)


def root_catalogue():
    cases = []
    orders = [SCOPES, list(reversed(SCOPES))]
    for op in ROOT_OPS:
        for mask in range(16):
            for order_index, order in enumerate(orders):
                scope = scope_string(mask, order)
                if order_index and scope == scope_string(mask):
                    continue
                for otype in ("nets/vms/images", "images", "nets/vms"):
                    for local in (False, True):
                        for pool_root in (False, True):
                            compares = [[True], [False], [True, True], [False, True], [True, False]] if op == "get_root" else [[True]]
                            for compare in compares:
                                cases.append({"part": "root", "op": op, "scope": scope, "type": otype, "env": mask % len(ENVS),
                                              "local": local, "pool": pool_root, "compare": compare})
    return cases


# ---------------------------------------------------------------------------
# hypothesis part (longer lists, word orders, repeated locations, free renderings)


@st.composite
def state_cases(draw, min_len, max_len):
    op = draw(st.sampled_from(OPS))
    scope = " ".join(draw(st.lists(st.sampled_from(SCOPES), unique=True, max_size=4)))
    env = draw(st.integers(0, len(ENVS) - 1))
    n = draw(st.integers(min_len, max_len))
    sources = [[draw(st.sampled_from(LABELS)), draw(st.integers(0, NVARIANTS - 1))] for _ in range(n)]
    have = [int(draw(st.booleans())) for _ in range(n)]
    local = draw(st.booleans())
    valid = draw(st.booleans()) if local else False
    return {"part": "state", "op": op, "scope": scope, "env": env, "sources": sources, "have": have,
            "local": local, "valid": valid}


REGRESSIONS = [
    # the mirror list of test_get_best_source_scope, worst first, state only in the farther mirrors
    {"part": "state", "op": "get", "scope": "own swarm cluster shared", "env": 2,
     "sources": [["cluster", 0], ["swarm", 2], ["shared", 2], ["own", 1], ["cluster", 1]],
     "have": [1, 1, 0, 1, 1], "local": False, "valid": False},
    # test_show_all: two paths, the own pool and the shared pool
    {"part": "state", "op": "show", "scope": "own shared", "env": 0,
     "sources": [["shared", 1], ["shared", 5], ["own", 0], ["shared", 0]], "have": [1, 0, 1, 0], "local": True, "valid": False},
    # test_set_only_pool_no_cache: pool update without the local state
    {"part": "state", "op": "set", "scope": "shared", "env": 0, "sources": [["shared", 1]], "have": [0], "local": False, "valid": False},
    # a same-numbered host behind another gateway must stay behind a worker of the own gateway
    {"part": "state", "op": "get", "scope": "swarm cluster", "env": 2,
     "sources": [["cluster", 1], ["swarm", 0]], "have": [1, 1], "local": True, "valid": False},
    # only swarm enabled: the shared pool and the cluster must not be asked
    {"part": "state", "op": "unset", "scope": "swarm", "env": 1,
     "sources": [["shared", 0], ["swarm", 0], ["cluster", 0], ["swarm", 3]], "have": [1, 1, 1, 1], "local": True, "valid": False},
    # test_set_root_update: pool root update without a local root
    {"part": "root", "op": "set_root", "scope": "shared", "type": "nets/vms/images", "env": 0, "local": False, "pool": True, "compare": [True]},
]


def run(ctx):
    impl = load()

    def body(case):
        # hypothesis part (state cases only): nothing is ever appended to the side list there
        found = []
        nontrivial, labels = check(case, impl, found)
        if found:
            raise found[0]
        ctx.case(case, nontrivial, labels + (["nontrivial"] if nontrivial else []))

    def enumerated(case):
        found = []
        try:
            nontrivial, labels = check(case, impl, found)
            ctx.case(case, nontrivial, labels + (["nontrivial"] if nontrivial else []))
        except Violation as violation:
            ctx.record_violation(violation, case)
        # recorded after the other oracles were evaluated; a listed (known) signature is only counted
        for violation in found:
            ctx.record_violation(violation, case)

    for case in (REGRESSIONS if ctx.shard == 0 else []):
        enumerated(case)

    for case in ctx.my_slice(root_catalogue()):
        enumerated(case)
    ctx.exhaustive_parts.append("R: 4 root operations x 16 pool_scope subsets (two word orders) x 3 object types x local root x "
                                "pool root x per image compare outcomes")

    for mask, seq_index, seq in ctx.my_slice(layouts(4)):
        for case in layout_cases(mask, seq_index, seq):
            enumerated(case)
    ctx.exhaustive_parts.append("S: 16 pool_scope subsets x all label sequences of 0..4 sources x {show: (state nowhere, everywhere) x local; "
                                "get: every placement x (no copy, stale copy, valid copy); set: local or not; unset}")

    ctx.hyp(state_cases(0, 6), body, ctx.budget(6000, 400000), name="state-lists")
    ctx.hyp(state_cases(5, 6), body, ctx.budget(2000, 200000), name="long-lists")
    from props import c13_sessions

    c13_sessions.run(ctx)
    from props import c13_validity

    c13_validity.run(ctx)


def replay(ctx, case):
    if isinstance(case, dict) and case.get("part") == "sessions":
        from props import c13_sessions

        try:
            c13_sessions.check(case)
        except Violation as violation:
            return [violation]
        return []
    if isinstance(case, dict) and case.get("part") == "validity":
        from props import c13_validity

        try:
            c13_validity.check(case, ctx.scratch)
        except Violation as violation:
            return [violation]
        return []
    found = []
    try:
        check(case, load(), found)
    except Violation as violation:
        found.append(violation)
    return found
