"""Generate and run a few E1 cases in-process, with timings: tools/e1_debug.py PROP N [scenario-substring] [seed]"""
import sys, time, json
sys.path.insert(0, "/verif")
from vlib import env
scratch = env.isolate()
from vlib import sim as simmod, e1, core
import hypothesis
from hypothesis import given, settings, HealthCheck, Phase
prop, n = sys.argv[1], int(sys.argv[2])
sub = sys.argv[3] if len(sys.argv) > 3 else ""
seed = int(sys.argv[4]) if len(sys.argv) > 4 else 1
simmod.setup()
items = [(k, s) for k, s in e1.catalogue("quick") if sub in k][:3]
print("scenarios", [k for k, _ in items])
t = time.time()
for k, s in items:
    info = e1.scenario_info(s); print(k, "nodes", info["nodes"], "producible", len(info["producible"]), "selected", info["selected"][:3], f"{time.time()-t:.1f}s")
stats = []
@hypothesis.seed(seed)
@settings(max_examples=n, database=None, deadline=None, phases=[Phase.generate], suppress_health_check=list(HealthCheck))
@given(e1.cases(dict(items), e1.BIASES[prop]))
def test(case):
    t0 = time.time()
    json.dump(case, open('/var/tmp/last_case.json','w'))
    sim = e1.run_case(case, scratch)
    t1 = time.time()
    labels = e1.labels_of(sim, case)
    verdict = "ok"
    try:
        e1.judge(sim, case, prop)
    except core.Violation as v:
        verdict = "VIOLATION " + core.canon(v.sig)
        print(json.dumps(case)); print(v.detail[:3000])
    hits = [(p, core.canon(v.sig)) for p, v in e1.cross_hits(sim, case, prop)]
    print(f"{case['scenario_name']:28s} run={t1-t0:6.2f}s starts={len(sim.starts()):3d} events={len(sim.events):5d} vt={sim.vtime:9.1f} it={sim.iterations:6d} err={type(sim.error).__name__ if sim.error else None} {verdict} cross={hits} {case['run']} pools={case['pools']['mode']}")
test()
env.cleanup(scratch)
