#!/bin/bash
# Re-run a check against a kept seeded change: tools/seed_recheck.sh <dir under seeded/> [tier]
# Works on a scratch copy of /repo's HEAD under /var/tmp, never on /repo itself; removes the copy afterwards.
set -u
NAME=$1; TIER=${2:-quick}
PROP=${NAME%%-*}
W=/var/tmp/recheck-$NAME
rm -rf $W; mkdir -p $W
git -C /repo archive HEAD | tar -x -C $W
cd $W
if ! git apply /verif/seeded/$NAME/patch.diff 2>/dev/null; then echo "$NAME PATCH-DOES-NOT-APPLY"; rm -rf $W; exit 3; fi
cd /verif
VERIF_EVIDENCE=$W/evidence VERIF_REPO=$W VERIF_SHARDS=${SHARDS:-16} timeout 3000 ./check $PROP --tier $TIER > $W/check.log 2>&1
code=$?
echo "$NAME exit=$code $(grep -A1 '^VIOLATION' $W/check.log | grep signature | sort -u | head -3 | tr '\n' ' ' | cut -c1-260)"
rm -rf $W
