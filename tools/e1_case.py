"""Run one E1 case from a JSON file (or stdin) and print the full compressed log and all oracle verdicts."""
import sys, json
sys.path.insert(0, "/verif")
from vlib import env
scratch = env.isolate()
from vlib import sim as simmod, e1, core
simmod.setup()
data = json.load(open(sys.argv[1]))
case = data.get("case", data)
sim = e1.run_case(case, scratch)
print("\n".join(sim.brief_log(500)))
print("error:", repr(sim.error), "vtime", sim.vtime)
e1.compute_final_producers(sim); e1.compute_removable(sim); e1.annotate_scans(sim)
for prop, oracle in e1.ORACLES.items():
    found = {}
    for v in oracle(sim, case) or ():
        found.setdefault(v.key, v)
    if not found:
        print(prop, "ok")
    for v in found.values():
        print(prop, "VIOLATION", core.canon(v.sig)); print("   ", v.detail.split("\n")[0][:600])
env.cleanup(scratch)
