#!/opt/veriftools/pyvenv/bin/python
"""Validate MANIFEST.json and every evidence file against the schemas."""
import glob, json, sys, os
import jsonschema
V = os.path.dirname(os.path.dirname(os.path.abspath(__file__)))
ok = True
jsonschema.validate(json.load(open(f"{V}/MANIFEST.json")), json.load(open("/root/.vp/MANIFEST.schema.json")))
schema = json.load(open("/root/.vp/EVIDENCE.schema.json"))
for path in sorted(glob.glob(f"{V}/evidence/C*.json")):
    try:
        jsonschema.validate(json.load(open(path)), schema)
        e = json.load(open(path))
        print("ok ", os.path.basename(path), e["tier"], e["coverage"]["evaluations"], e["coverage"]["distinct_nontrivial"], e.get("violations"), f'{e["wall_s"]}s')
    except Exception as error:
        ok = False
        print("BAD", path, str(error)[:300])
sys.exit(0 if ok else 1)
