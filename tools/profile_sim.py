import sys, time, os, cProfile, pstats
sys.path.insert(0, "/verif")
from vlib import env
scratch = env.isolate()
from vlib import sim, memo
sim.setup()
scn = sim.Scenario("normal&tutorial1,tutorial2", nets="net1 net2 net3")
sim.build_graph(scn)
pr = cProfile.Profile(); pr.enable()
for i in range(3):
    s = sim.Sim(scn, run_params={}, durations=[0.1,1,5], outcomes=["PASS"], scratch=scratch).run()
pr.disable()
pstats.Stats(pr).sort_stats("cumulative").print_stats(35)
env.cleanup(scratch)
