"""tools/e2_probe.py "<selection>" "<nets>" [lazy] [vm1restr] - parse one graph and run the E2 oracles."""
import sys, time, json
sys.path.insert(0, "/verif")
from vlib import env
scratch = env.isolate()
from vlib import sim as simmod, ginspect, e1, core
simmod.setup()
tests, nets = sys.argv[1], sys.argv[2]
lazy = len(sys.argv) > 3 and sys.argv[3] == "lazy"
vms = dict(e1.DEFAULT_VMS)
if len(sys.argv) > 4:
    for spec in sys.argv[4].split(";"):
        k, v = spec.split("=", 1); vms[k] = (v + "\n") if v else ""
scn = simmod.Scenario(tests, vms, nets, lazy=lazy)
t = time.time()
graph, swarms = simmod.build_graph(scn)
print("parsed", len(graph.nodes), "nodes in", round(time.time() - t, 1), "s")
ex = ginspect.export(graph)
case = {"scenario": scn.to_json()}
found = {}
for name, gen in (("structure", ginspect.check_structure(graph, ex, case, lazy_incomplete=lazy)),
                  ("dependencies", ginspect.check_dependencies(graph, ex, case)),
                  ("bridging", ginspect.check_bridging(graph, case)),
                  ("copies", ginspect.check_worker_copies(ex, case, lambda w, i: False))):
    for v in gen:
        found.setdefault((name, v.key), v)
for (name, key), v in found.items():
    print(name, "VIOLATION", key); print("    ", str(v.detail)[:500])
print(len(found), "violation kinds")
if "-v" in sys.argv:
    for e in ex["nodes"].values():
        if isinstance(e, dict): print(e["name"][-90:], e["prefix"], [ (o["long_suffix"], o["get"], o["get_state"], o["set_state"]) for o in e["objects"] if o["key"]!="nets"], list(e["parents"].values()), len(e["clones"]))
env.cleanup(scratch)
