#!/bin/bash
# tools/sweep_list.sh <tier> <seed> <ids...>
tier=$1; seed=$2; shift 2
for id in "$@"; do
  out=$(VERIF_SEED=$seed ./check $id --tier $tier 2>&1); code=$?
  echo "seed=$seed $id exit=$code $(echo "$out" | grep "^\[$id\]")"
  if [ $code -ne 0 ]; then echo "$out" | grep -A3 "^VIOLATION\|HARNESS" | cut -c1-600; fi
done
