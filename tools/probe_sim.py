import sys, time, os
sys.path.insert(0, "/verif")
from vlib import env
scratch = env.isolate()
from vlib import sim, memo
t=time.time()
sim.setup()
print("setup", time.time()-t)
tests = sys.argv[1] if len(sys.argv)>1 else "normal&tutorial1"
nets = sys.argv[2] if len(sys.argv)>2 else "net1 net2"
lazy = len(sys.argv)>3 and sys.argv[3]=="lazy"
scn = sim.Scenario(tests, nets=nets, lazy=lazy)
t=time.time()
g,_ = sim.build_graph(scn)
print("build", time.time()-t, len(g.nodes), memo.STATS)
t=time.time()
s = sim.Sim(scn, run_params={}, durations=[0.1,1,5], outcomes=["PASS"], scratch=scratch).run()
print("run", time.time()-t, "vtime", s.vtime, "iters", s.iterations, "error", repr(s.error))
print("\n".join(s.brief_log(200)))
print(s.pools.snapshot())
st = s.starts()[-1]
print(st["gets"]); print({k:v for k,v in st["params"].items() if "location" in k or k.startswith("nets")})
env.cleanup(scratch)
