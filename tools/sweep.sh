#!/bin/bash
# tools/sweep.sh <tier> <seed>...   run every check at the given seeds, print one line per run plus any alarm
tier=$1; shift
for s in "$@"; do
  for i in 01 02 03 04 05 06 07 08 09 10 11 12 13 14 15 16 17 18 19 20; do
    out=$(VERIF_SEED=$s ./check C$i --tier $tier 2>&1); code=$?
    echo "seed=$s C$i exit=$code $(echo "$out" | grep "^\[C$i\]")"
    if [ $code -ne 0 ]; then echo "$out" | grep -A3 "^VIOLATION\|HARNESS" | cut -c1-600; fi
  done
done
