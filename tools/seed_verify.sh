#!/bin/bash
# Verify one seeded mutant delivered by a sub-agent and (optionally) run our check against it.
#   tools/seed_verify.sh <PROP> <a|b> [tests to run, default: relevant file guessed]
# Works on a scratch copy of /repo's HEAD under /var/tmp, never on /repo itself.
set -u
PROP=$1; V=$2; shift 2
SRC=${MUTROOT:-/tmp/mut}/out/$PROP/$V
W=/var/tmp/seed${MUTTAG:-}-$PROP-$V
rm -rf $W; mkdir -p $W/home
git -C /repo archive HEAD | tar -x -C $W
cd $W
if ! git apply --check $SRC/patch.diff 2>/dev/null; then
  echo "PATCH-DOES-NOT-APPLY on current HEAD ($PROP/$V)"; git apply --check $SRC/patch.diff;
  exit 3
fi
DEMO=$(ls $SRC/demo_*.py | head -1)
run_demo() { (cd $W && HOME=$W/home PYTHONPATH=$W timeout 600 /venv/bin/python $DEMO > $W/demo_$1.log 2>&1; echo $?); }
CLEAN=$(run_demo clean)
git apply $SRC/patch.diff
MUT=$(run_demo mutant)
echo "demo: clean exit=$CLEAN mutant exit=$MUT"
TESTS="${*:-}"
if [ -n "$TESTS" ]; then
  (cd $W && HOME=$W/home PYTHONPATH=$W timeout 3000 /venv/bin/python -m pytest -q -p no:cacheprovider -n 4 $TESTS 2>&1 | tail -3) | tee $W/tests.log
fi
cd /verif
VERIF_EVIDENCE=$W/evidence VERIF_REPO=$W VERIF_SHARDS=${SHARDS:-8} timeout 3000 ./check $PROP --tier quick > $W/check.log 2>&1
echo "check exit=$? ($(grep -c '^VIOLATION' $W/check.log) violation lines)"
grep -A1 "^VIOLATION" $W/check.log | grep signature | head -5
tail -2 $W/check.log | head -1
