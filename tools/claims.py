# Table of claimed checks; executed by gen_manifest.py (claim(), NOT_APPLICABLE in scope).

PBT = "property-based testing (hypothesis)"

claim("C16", "E3", "hypothesis generated name sets vs naive scan; hypothesis stateful machine vs dict model",
      "Generated search: thousands of parser-shaped name sets with all short queries compared with a naive contiguous "
      "scan (multiset equality, membership agreement, insertion-order independence), and a rule-based state machine "
      "over EdgeRegister and the shared registers of real bridged TestNode objects compared with a dict model. "
      "Sampling, not proof; the structure is small and the oracle exact, so exploration is the fitting level.",
      "Names restricted to the parser's shape (set variant first and never deeper, no repeated variant); TestNode "
      "objects are built with hand-written parameters; hypothesis and CPython trusted.")

claim("C17", "E3", "hypothesis generated multi-image listings vs set intersection / size classification",
      "Generated search over 1-3 images with arbitrary state-name lists rendered as qemu-img snapshot listings "
      "(generated padding, zero and non-zero vm-state sizes, optional header/icount column) and memory files; the "
      "vm-level listing must equal the intersection over images (and memory files) and the on/off listings must "
      "split by vm-state size. Exact oracle, cheap cases, sampled exploration.",
      "QemuImg and os.listdir/stat substituted as in the selftests; the ramfile per-image backend is a stub; "
      "listing grammar follows qemu-img's columns.")

_pending = "check not built yet in this round (planned in DESIGN.md section 4); not claimed until it runs"
for _i in range(1, 21):
    _p = f"C{_i:02d}"
    if _p not in CHECKS:
        NOT_APPLICABLE[_p] = _pending
