# Table of claimed checks; executed by gen_manifest.py (claim(), NOT_APPLICABLE in scope).

PBT = "property-based testing (hypothesis)"

claim("C16", "E3", "hypothesis generated name sets vs naive scan; hypothesis stateful machine vs dict model",
      "Generated search: thousands of parser-shaped name sets with all short queries compared with a naive contiguous "
      "scan (multiset equality, membership agreement, insertion-order independence), and a rule-based state machine "
      "over EdgeRegister and the shared registers of real bridged TestNode objects compared with a dict model. "
      "Sampling, not proof; the structure is small and the oracle exact, so exploration is the fitting level.",
      "Names restricted to the parser's shape (set variant first and never deeper, no repeated variant); TestNode "
      "objects are built with hand-written parameters; hypothesis and CPython trusted.")

claim("C17", "E3", "hypothesis generated multi-image listings vs set intersection / size classification",
      "Generated search over 1-3 images with arbitrary state-name lists rendered as qemu-img snapshot listings "
      "(generated padding, zero and non-zero vm-state sizes, optional header/icount column) and memory files; the "
      "vm-level listing must equal the intersection over images (and memory files) and the on/off listings must "
      "split by vm-state size. Exact oracle, cheap cases, sampled exploration.",
      "QemuImg and os.listdir/stat substituted as in the selftests; the ramfile per-image backend is a stub; "
      "listing grammar follows qemu-img's columns.")

claim("C14", "E3", "hypothesis sequential PBT on real files; generated multi-process lock fuzz; enumerated fault injection",
      "Three parts on real temporary directories: (1) generated op sequences (download/upload/delete, local and link "
      "mode) over generated contents around the 1 MiB hash block and all pre-existing cache/pool/link states, with "
      "byte-exactness, copy-skipped-iff-identical and link rules as oracle; (2) hypothesis-drawn rounds of 2-8 forked "
      "processes running op sequences on the same pool file with critical sections recorded by wrapped "
      "copy/unlink/hash calls: no two sections on one pool file overlap and the result equals a sequential replay; "
      "(3) an enumerated table of faults inside the critical section (exception at every wrapped call, SIGKILL at "
      "every wrapped call, holder outliving the timeout). Fault table exhaustive at the wrapped calls; the rest sampled.",
      "The OS owns the process schedule (windows widened by injected sleeps); crash points only at wrapped calls; "
      "remote (ssh/scp) transfers not exercised; guard timeouts are harness errors, never violations.",
      category="fault_enumeration")

claim("C18", "E3", "hypothesis generated networks + stateful allocate/reattach machine vs registry invariant and ipaddress",
      "Generated networks (1-4 vms x 1-3 nics over disjoint-or-identical IPv4 subnets /8../30, static addresses, DHCP "
      "ranges) built with the real VMNetwork over stub vm/env objects; registry invariant (every interface in exactly "
      "one netconfig that lists it under its ip inside the subnet, no duplicate ips) after construction and after "
      "every allocate/reattach/translate step, allocation = each address of the range once then IndexError, "
      "netmask/prefix and translate_address against the stdlib ipaddress; prefix lengths 0..32 enumerated.",
      "Stub env/vm as in the selftests; overlapping subnets of different length, static addresses inside the DHCP "
      "range, proxy_nic reattachment and reattachment towards an exhausted range are excluded by construction and counted.")

claim("C19", "E3", "exhaustive type product x hypothesis generated networks vs counterpart table and mirror relations",
      "All 108 combinations of local x remote x peer x auth types (plus 20 unsupported-type rejects) are enumerated; for "
      "each, generated multi-vm networks and node pairs; the two end points' parameters must mirror each other "
      "(lan/remote nets, peer addresses, swapped psk ids, documented right-hand counterpart types), unsupported types "
      "raise ValueError, connects_nodes is symmetric and agrees with a subnet-membership reference.",
      "Dictionaries in the shape the callers in network.py use (no auth type 'none'); stub env/vm; tunnel names "
      "without underscores (third-party object_params limitation).")

_pending = "check not built yet in this round (planned in DESIGN.md section 4); not claimed until it runs"
for _i in range(1, 21):
    _p = f"C{_i:02d}"
    if _p not in CHECKS:
        NOT_APPLICABLE[_p] = _pending
