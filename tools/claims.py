# Table of claimed checks; executed by gen_manifest.py (claim(), NOT_APPLICABLE in scope).

PBT = "property-based testing (hypothesis)"

claim("C16", "E3", "hypothesis generated name sets vs naive scan; hypothesis stateful machine vs dict model",
      "Generated search: thousands of parser-shaped name sets with all short queries compared with a naive contiguous "
      "scan (multiset equality, membership agreement, insertion-order independence), and a rule-based state machine "
      "over EdgeRegister and the shared registers of real bridged TestNode objects compared with a dict model. "
      "Sampling, not proof; the structure is small and the oracle exact, so exploration is the fitting level.",
      "Names restricted to the parser's shape (set variant first and never deeper, no repeated variant); TestNode "
      "objects are built with hand-written parameters; hypothesis and CPython trusted.")

_pending = "check not built yet in this round (planned in DESIGN.md section 4); not claimed until it runs"
for _i in range(1, 21):
    _p = f"C{_i:02d}"
    if _p not in CHECKS:
        NOT_APPLICABLE[_p] = _pending
