# Table of claimed checks; executed by gen_manifest.py (claim(), NOT_APPLICABLE in scope).

PBT = "property-based testing (hypothesis)"

claim("C16", "E3", "hypothesis generated name sets vs naive scan; hypothesis stateful machine vs dict model",
      "Generated search: thousands of parser-shaped name sets with all short queries compared with a naive contiguous "
      "scan (multiset equality, membership agreement, insertion-order independence), and a rule-based state machine "
      "over EdgeRegister and the shared registers of real bridged TestNode objects compared with a dict model. "
      "Sampling, not proof; the structure is small and the oracle exact, so exploration is the fitting level.",
      "Names restricted to the parser's shape (set variant first and never deeper, no repeated variant); TestNode "
      "objects are built with hand-written parameters; hypothesis and CPython trusted.")

claim("C17", "E3", "hypothesis generated multi-image listings vs set intersection / size classification",
      "Generated search over 1-3 images with arbitrary state-name lists rendered as qemu-img snapshot listings "
      "(generated padding, zero and non-zero vm-state sizes, optional header/icount column) and memory files; the "
      "vm-level listing must equal the intersection over images (and memory files) and the on/off listings must "
      "split by vm-state size. Exact oracle, cheap cases, sampled exploration.",
      "QemuImg and os.listdir/stat substituted as in the selftests; the ramfile per-image backend is a stub; "
      "listing grammar follows qemu-img's columns.")

claim("C14", "E3", "hypothesis sequential PBT on real files; generated multi-process lock fuzz; enumerated fault injection",
      "Three parts on real temporary directories: (1) generated op sequences (download/upload/delete, local and link "
      "mode) over generated contents around the 1 MiB hash block and all pre-existing cache/pool/link states, with "
      "byte-exactness, copy-skipped-iff-identical and link rules as oracle; (2) hypothesis-drawn rounds of 2-8 forked "
      "processes running op sequences on the same pool file with critical sections recorded by wrapped "
      "copy/unlink/hash calls: no two sections on one pool file overlap and the result equals a sequential replay; "
      "(3) an enumerated table of faults inside the critical section (exception at every wrapped call, SIGKILL at "
      "every wrapped call, holder outliving the timeout). Fault table exhaustive at the wrapped calls; the rest sampled.",
      "The OS owns the process schedule (windows widened by injected sleeps); crash points only at wrapped calls; "
      "remote (ssh/scp) transfers not exercised; guard timeouts are harness errors, never violations.",
      category="fault_enumeration")

claim("C18", "E3", "hypothesis generated networks + stateful allocate/reattach machine vs registry invariant and ipaddress",
      "Generated networks (1-4 vms x 1-3 nics over disjoint-or-identical IPv4 subnets /8../30, static addresses, DHCP "
      "ranges) built with the real VMNetwork over stub vm/env objects; registry invariant (every interface in exactly "
      "one netconfig that lists it under its ip inside the subnet, no duplicate ips) after construction and after "
      "every allocate/reattach/translate step, allocation = each address of the range once then IndexError, "
      "netmask/prefix and translate_address against the stdlib ipaddress; prefix lengths 0..32 enumerated.",
      "Stub env/vm as in the selftests; overlapping subnets of different length, static addresses inside the DHCP "
      "range, proxy_nic reattachment and reattachment towards an exhausted range are excluded by construction and counted.")

claim("C19", "E3", "exhaustive type product x hypothesis generated networks vs counterpart table and mirror relations",
      "All 108 combinations of local x remote x peer x auth types (plus 20 unsupported-type rejects) are enumerated; for "
      "each, generated multi-vm networks and node pairs; the two end points' parameters must mirror each other "
      "(lan/remote nets, peer addresses, swapped psk ids, documented right-hand counterpart types), unsupported types "
      "raise ValueError, connects_nodes is symmetric and agrees with a subnet-membership reference.",
      "Dictionaries in the shape the callers in network.py use (no auth type 'none'); stub env/vm; tunnel names "
      "without underscores (third-party object_params limitation).")

_E1NOTE = "Model executor and model state pools at the selftests' seams (run_test_task, node.door, login, spawner); virtual-clock loop; memoised third-party parser and faster Params.object_params (self-checked); run parameters patched into parsed nodes. Scenarios come from the shipped suite only."
_E1TEXT = 'Generated traversals of the real graph code (real parse, real traverse_object_trees/traverse_node/reverse_node/run_test_node/run_workers) on a virtual clock: scenario (a catalogue of selections x worker sets x parsing modes over the shipped suite, shuffled by the seed, plus randomly composed selections) x run parameters x initial pools x durations x outcomes; the oracle is an invariant over the recorded event history. '
claim("C01", "E1", "hypothesis generated traversal histories (virtual-clock simulation) vs availability invariant",
      _E1TEXT + "C01: at every test start each required non-root state must be in the worker's own pool or in a listed "
      "and scope-permitted pool, unless its producer or the object's creation had a non-PASS attempt before, or the "
      "object is permanent with an externally given state. Two root causes are listed as known findings (C01-F1; C01-F2/F3/F4).",
      _E1NOTE)
claim("C02", "E1", "hypothesis generated traversal histories vs termination / definite-result invariants",
      _E1TEXT + "C02: the run must complete without deadlock, traversal error or exceeding deterministic step and "
      "virtual-time bounds (a busy loop is caught by a step counter), every selected test composable with a worker "
      "is executed, no node keeps a pending UNKNOWN result, a dry run executes nothing and changes no state. Found "
      "and fixed: a creation-step retry livelock and the pending placeholder left for unreported results. Progress-"
      "relative watchdogs (idle virtual time, execution count, spinning) report a run that cannot end within seconds.",
      _E1NOTE + " Step bounds are generous constants derived from the run's own size.")
claim("C03", "E1", "hypothesis generated traversal histories vs execution-count invariant per reuse scope",
      _E1TEXT + "C03: executions per (worker-invariant identity, reuse scope) <= 1 or max_tries; none when all states "
      "were present at the scope's first scan; flat nodes and clone sources never executed. Results that are never "
      "reported are not generated here (they overrun the timeout). Two classes are known findings (C03-F1, C03-F2).",
      _E1NOTE)
claim("C04", "E1", "hypothesis generated schedules (tied and near-timeout durations) vs interval-overlap invariant",
      _E1TEXT + "C04: sweep-line over execution intervals per (identity, scope): overlap <= max_concurrent_tries with "
      "the two-step creation as one execution; every back-off lasts the documented period and the worker restarts "
      "from the root. Durations stay strictly below the timeout. Found and fixed: the creation budget defect.",
      _E1NOTE)
claim("C05", "E1", "hypothesis generated traversal histories vs removal-ordering invariant",
      _E1TEXT + "C05: every unset request must concern a state marked for removal, no dependant within the reuse "
      "scope may run at that moment or start later without the producer re-running, reuse/block pool filters issue "
      "no copy while backing out, and reusable states produced in the run are still in their producer's pool at the "
      "end. One class is a known finding (C05-F1, remote remover not waiting for another swarm). Found and fixed: "
      "premature removal under on-demand parsing (7b8a963).",
      _E1NOTE)
claim("C08", "E1", "hypothesis generated traversal histories vs worker/location exactness invariant",
      _E1TEXT + "C08: every execution happens on the worker the test was parsed for, with that worker's connection "
      "parameters and within its vm restrictions; the listed sources of each required state are the shared pool plus "
      "exactly the workers with a PASS result of a producer (WARN producers optional), with their access parameters.",
      _E1NOTE)
claim("C11", "E3", "hypothesis generated argument lists vs own restriction matcher over the sets.cfg universe + metamorphic relations",
      "Generated command lines (only/no/only_vmX/no_vmX/vms/nets/only_nets/K=V, malformed tokens, any order and "
      "multiplicity) through the real params_from_cmd and parse_flat_nodes; expected selection from an own matcher "
      "(, = or, .. = and in any order, . = adjacent) cross-checked against the plain Cartesian parser; metamorphic "
      "equivalences (permutation, duplication, only=a only=b == a..b, no= as difference); overrides in every flat "
      "node; documented error cases. Two defects found and fixed.",
      "Only flat (loader) nodes are inspected for overrides; syntactically invalid restriction values are not "
      "generated; suite = shipped tp_folder.")
claim("C12", "E3", "exhaustive single-call policy table + hypothesis stateful machine vs set-of-names store model",
      "36 624 enumerated rows (operation x mode letters x check mode x presence x root x type x backend flavour, plus "
      "skip_types/readonly filter rows) and a rule-based state machine over 1-3 vms x 1-2 images; after every call "
      "outcome, ordered backend actions, touched objects and the resulting store must equal a plain model of the "
      "documented policy table. One defect found and fixed (push/pop on readonly images).",
      "In-memory backends registered in ss.BACKENDS (plain and sourced flavour); policy table transcribed from the "
      "README and docstrings (DESIGN.md appendix A); one net; no skip_types for push/pop.")
claim("C13", "E3", "exhaustive scope x source-layout enumeration + hypothesis for longer lists vs label-based oracle",
      "All 16 scope subsets x all label sequences of <= 4 sources x placements x cache validity (and the root "
      "variants) are enumerated against the real SourcedStateBackend/RootSourcedStateBackend with recording stub "
      "transport and local operations; the expected scope of a source is the generator's label, never the code's "
      "classification; longer lists by hypothesis. Two root-scope signatures are known findings (C13-F1, C13-F2).",
      "Stub transport and stub local backend substituted through the class attributes as in StatesPoolTest; an "
      "additional generated part runs the real QCOW2ImageTransfer/TransferOps with fake end-point-tagged remote "
      "sessions (login, remote hash, scp and qemu-img replaced) for sources behind shared gateways, and a third part runs the real compare_chain/compare over drawn cache and pool files (cache validity of images, backing chain and memory dump).")

claim("C10", "E1", "exhaustive should_rerun decision table + hypothesis generated outcome/retry/replay histories vs reference rule",
      "A 630k-row table of TestNode.should_rerun on real parsed nodes (max_tries x recorded status sequences x rerun/stop "
      "subsets x leaf/setup x plain/replay) against a reference written from the docstring, plus generated E1 runs: "
      "retries are judged on the recorded history (each execution after the first must be allowed by the statuses "
      "recorded before it, and no due try may be missing), identifiers of repeated executions are distinct and every "
      "recorded result is the one emitted for that execution (marker), invalid settings raise ValueError, replayed "
      "previous-job files (real results.json loader) follow the replay rule, and the verdict equals an independent "
      "computation. Table exhaustive within its bounds; histories sampled.",
      _E1NOTE + " Default pool_scope and max_concurrent_tries=1; results that are never reported only with a single "
      "worker (with several workers the hung-test recovery admits another worker, which is not a retry); object "
      "creation is excluded from the per-execution pairing because failed configuration steps count as tries.")

_E2NOTE = ("Real parser (third-party Cartesian parser memoised and self-checked); lazy inputs are expanded by a simulated "
           "all-PASS traversal at the E1 seams; selections always name a primary test set; inputs above a size bound are "
           "skipped and counted; besides the shipped suite, generated suites with a random known setup DAG (G2: one level of "
           "cloning, image states below customize).")
claim("C06", "E2", "hypothesis generated selections/restrictions/worker sets -> parsed graph vs structural invariants",
      "Generated graph inputs (selection grammar x per-vm restrictions incl. none x worker sets incl. restricted nets and "
      "clusters x eager or lazy, plus a second image per vm to obtain multi-object edges) are parsed by the real code and "
      "exported to a neutral form read from both ends of every edge; invariants: unique names/ids, one representation per "
      "test and worker, exactly one shared root, symmetric edges with equal object sets, acyclic, reachable from the root, "
      "one net object first and the vms of the parameters, exactly one same-worker same-variant parent setting exactly the "
      "required state per object (or the creation node), clone sources not runnable, validate() passes.",
      _E2NOTE)
claim("C07", "E2", "hypothesis generated graph inputs vs independent resolver (own restriction matcher over the sets.cfg universe)",
      "For every node and object with a declared dependency the attached parents must be producers matched by an own "
      "implementation of the restriction algebra over the separately parsed universe of test names, none missing, none "
      "spurious, none duplicated per worker (one representation per test, also across test sets), and a dependency "
      "resolving to several producers must be cloned once per producer (clone count = producer count, pairwise "
      "different branch states); for generated suites the whole graph must equal the known DAG.",
      _E2NOTE + " Oracle A: for generated suites the exported nodes and edges must equal the generator's DAG; oracle B: "
      "the resolver, for the shipped suite.")
claim("C09", "E2", "hypothesis generated graph inputs: worker-copy isomorphism, bridging/register sharing, lazy vs eager differential, double parse",
      "Per generated input: (1) the copies of all workers are equal up to naming, a node may be missing only where the "
      "worker's restrictions (own matcher) exclude it or everything that needs it; (2) equivalent nodes are bridged "
      "symmetrically and completely and hold identical registers, and every visit registered during a lazy traversal is "
      "reported through every equivalent node; (3) lazily expanded tests have exactly the parents of the complete graph "
      "and every test of the complete graph is expanded by some worker; (4) parsing twice gives identical exports.",
      _E2NOTE + " Clone sources (never runnable bookkeeping nodes) are left out of the comparisons.")

claim("C15", "E1", "hypothesis generated update requests through Manu.run vs reference path/descendants from a separately exported graph",
      "Generated (from_state, to_state) pairs along each vm's setup chain (incl. from==to, install corner cases and "
      "non-existent names), vm selections, remove sets and 1-3 workers are run through the real command line parser, "
      "Manu.run and the update tool on the simulator; the executed tests must be exactly the path between the states "
      "(once, in order), the removals per worker exactly the selected vm's states of the descendants of the target "
      "state inside the remove set, nothing of unselected vms, and unknown states must be rejected without acting.",
      _E1NOTE + " The reference graph of the remove set is parsed by the real parser and exported (E2); path and "
      "descendants are computed by the check. from_state is always an ancestor of to_state.")
claim("C20", "E1", "hypothesis generated setup chains through Manu.run vs per-step execution multiset, order and return code",
      "Generated chains of 1-4 manual steps (repetitions allowed) x vm selections/variants x worker sets (incl. workers excluding a "
      "selected variant) x a failing or raising step (drawn exception type) at any position x extra parameters (incl. user-given mode keys) run through Manu.run on the "
      "simulator: every step executes exactly once per selected vm variant and compatible worker (per-vm tools) or once "
      "per compatible worker for all vms (multi-vm tools), with the step's and the user's parameters, never for "
      "unselected vms, in chain order; the return code is 1 exactly when a step failed or raised, later steps still run. "
      "Three defects found and fixed (create/clean/collect dropped the return code; repeated steps of a chain were dropped; a raising create/clean/collect left its temporary parameters behind).",
      _E1NOTE + " Chains (steps may repeat) exclude start/stop/run/list/update; a raising step only with one worker.")

_pending = "check not built yet in this round (planned in DESIGN.md section 4); not claimed until it runs"
for _i in range(1, 21):
    _p = f"C{_i:02d}"
    if _p not in CHECKS:
        NOT_APPLICABLE[_p] = _pending
