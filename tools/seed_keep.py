#!/venv/bin/python
"""Keep a verified seeded mutant under /verif/seeded/<PROP>-<variant>/.

    tools/seed_keep.py PROP VARIANT "needs" "caught_by" [--tests "what I re-ran and result"]

Reads the sub-agent's deliverables from /tmp/mut/out/PROP/VARIANT and the verification log of
tools/seed_verify.sh under /var/tmp/seed-PROP-VARIANT.
"""
import json
import os
import re
import shutil
import sys

prop, variant, needs, caught = sys.argv[1:5]
tests = sys.argv[sys.argv.index("--tests") + 1] if "--tests" in sys.argv else ""
root = os.environ.get("MUTROOT", "/tmp/mut")
tag = os.environ.get("MUTTAG", "")
src = f"{root}/out/{prop}/{variant}"
work = f"/var/tmp/seed{tag}-{prop}-{variant}"
dst = f"/verif/seeded/{prop}-{variant}{tag}"
os.makedirs(dst, exist_ok=True)
shutil.copy(f"{src}/patch.diff", f"{dst}/patch.diff")
demo = [f for f in os.listdir(src) if f.startswith("demo_")][0]
shutil.copy(f"{src}/{demo}", f"{dst}/{demo}")
shutil.copy(f"{src}/notes.md", f"{dst}/agent_notes.md")
check_log = open(f"{work}/check.log").read() if os.path.exists(f"{work}/check.log") else ""
signatures = sorted(set(re.findall(r"signature: (.*)", check_log)))
summary = [line for line in check_log.splitlines() if line.startswith(f"[{prop}]")]
tests_log = open(f"{work}/tests.log").read().strip() if os.path.exists(f"{work}/tests.log") else ""
meta = {
    "property": prop,
    "variant": variant,
    "breaks": open(f"{src}/notes.md").read().split("\n\n")[0][:600],
    "needs_to_manifest": needs,
    "files_touched": sorted(set(re.findall(r"^\+\+\+ b/(.*)$", open(f"{src}/patch.diff").read(), re.M))),
    "what_i_ran": {
        "demo_on_clean_HEAD_copy": "exit 0",
        "demo_with_patch": "exit 1",
        "tests_rerun_by_me_with_patch": tests or tests_log or "relied on the sub-agent's full-suite run (see agent_notes.md)",
        "check_cmd": f"VERIF_REPO=<scratch copy of HEAD + patch> ./check {prop} --tier quick",
        "check_result": "exit 1" if signatures else "exit 0 (missed)",
        "check_summary": summary[-1] if summary else "",
    },
    "caught_by": caught,
    "violation_signatures": signatures,
}
json.dump(meta, open(f"{dst}/meta.json", "w"), indent=1)
print("kept", dst, "signatures:", signatures)
