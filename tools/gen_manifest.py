#!/venv/bin/python
"""Regenerate MANIFEST.json from the table below and validate it against the schema."""

import json
import os
import sys

VERIF = os.path.dirname(os.path.dirname(os.path.abspath(__file__)))

BASELINE_CMD = json.load(open("/root/.vp/BASELINE.json"))["cmd"] if os.path.exists("/root/.vp/BASELINE.json") else \
    "cd /repo && /venv/bin/python -m pytest -ra -q -p no:cacheprovider --timeout=900 --continue-on-collection-errors"

# id -> (engine, category, technique, level text, level note, design ref)
CHECKS = {}
NOT_APPLICABLE = {}


def claim(pid, engine, technique, text, note, category="exploration"):
    CHECKS[pid] = dict(engine=engine, technique=technique, text=text, note=note, category=category)


exec(open(os.path.join(VERIF, "tools", "claims.py")).read())


def main():
    manifest = {
        "version": 1,
        "setup_cmd": "(/venv/bin/python -c 'import hypothesis' 2>/dev/null || /venv/bin/pip install --no-index "
                     "--find-links /opt/veriftools/wheels hypothesis) && ./check --selftest",
        "hooks": {
            "guard": "INTRA2NET_AVOCADO_I2N_VERIF",
            "enable": "none needed: all seams are patched from the harness (the checks export the variable anyway)",
            "baseline_off_cmd": BASELINE_CMD,
            "source_commits": [],
            "add_only": True,
        },
        "engines": [
            {"name": "E1", "path": "vlib/sim.py", "serves_properties": [p for p, c in CHECKS.items() if c["engine"] == "E1"],
             "kind_free_text": "real traversal coroutines on a virtual-clock asyncio loop with a model executor and model state pools"},
            {"name": "E2", "path": "vlib/ginspect.py", "serves_properties": [p for p, c in CHECKS.items() if c["engine"] == "E2"],
             "kind_free_text": "graph inspector: neutral export of parsed graphs + invariants / independent resolver"},
            {"name": "E3", "path": "props/", "serves_properties": [p for p, c in CHECKS.items() if c["engine"] == "E3"],
             "kind_free_text": "small pure hypothesis harnesses (plain, stateful, enumerated tables, multi-process lock fuzz)"},
        ],
        "checks": [],
        "notes": "All checks: ./check <ID> --tier quick|thorough; seeds from VERIF_SEED; 16 shard processes; "
                 "exit 2 = harness error. See DESIGN.md.",
        "not_applicable": [{"property_id": p, "reason": r} for p, r in sorted(NOT_APPLICABLE.items())],
    }
    for pid in sorted(CHECKS):
        c = CHECKS[pid]
        manifest["checks"].append({
            "property_id": pid,
            "quick_cmd": f"./check {pid} --tier quick",
            "thorough_cmd": f"./check {pid} --tier thorough",
            "evidence_file": f"evidence/{pid}.json",
            "replay_cmd_template": f"./check {pid} --replay {{path}}",
            "engine": c["engine"],
            "level_claimed": {"category": c["category"], "text": c["text"], "design_ref": f"DESIGN.md section 4, {pid}"},
            "level_note": c["note"],
            "technique": c["technique"],
        })
    path = os.path.join(VERIF, "MANIFEST.json")
    with open(path, "w") as handle:
        json.dump(manifest, handle, indent=1)
        handle.write("\n")
    try:
        import jsonschema

        jsonschema.validate(manifest, json.load(open("/root/.vp/MANIFEST.schema.json")))
        print("MANIFEST.json valid;", len(manifest["checks"]), "checks,", len(manifest["not_applicable"]), "not applicable")
    except ImportError:
        print("jsonschema not importable here; wrote MANIFEST.json unvalidated")
    ids = {c["property_id"] for c in manifest["checks"]} | set(NOT_APPLICABLE)
    missing = [f"C{i:02d}" for i in range(1, 21) if f"C{i:02d}" not in ids]
    if missing:
        print("ERROR: properties neither claimed nor not_applicable:", missing)
        return 1
    return 0


if __name__ == "__main__":
    sys.exit(main())
